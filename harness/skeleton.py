"""C07 translator: Python source of the API functions -> exception-flow skeletons (Coq terms
of C07.Lang.stmt), regenerated from /repo's current source on every run.

Fail-closed: a construct outside the table below raises Untranslatable, which the check
reports as a broken tie.  Conservative: every statement that is not provably trivial is a
possible raise point (MayRaise <line>).
"""
import ast
import os

from . import common as C

# module file -> functions whose skeleton is checked (any other function of the module that
# takes `model` as its first parameter and is called from one of these is translated too)
API = [
    ('predict.py', ['predict']),
    ('deep_lift_shap.py', ['deep_lift_shap']),
    ('ism.py', ['saturation_mutagenesis']),
    ('marginalize.py', ['marginalize', 'marginalize_annotations']),
    ('ablate.py', ['ablate', 'ablate_annotations']),
    ('space.py', ['space']),
    ('variant_effect.py', ['substitution_effect', 'deletion_effect', 'insertion_effect']),
    ('product.py', ['apply_pairwise', 'apply_product']),
    ('design.py', ['greedy_substitution']),
]
API_NAMES = {f for _, fs in API for f in fs}
# callables through which an API function hands the model on (callee contract: CallApi)
CALLEE_NAMES = API_NAMES | {'func'}
READONLY_MODEL_ATTRS = {'parameters', 'modules', 'named_parameters', 'named_modules', 'children',
                        'buffers', 'state_dict'}
GRAD_CONTEXTS = {'no_grad', 'set_grad_enabled', 'enable_grad', 'catch_warnings', 'inference_mode'}


class Untranslatable(Exception):
    pass


def names_in(node):
    return {n.id for n in ast.walk(node) if isinstance(n, ast.Name)}


def is_trivial_expr(e):
    """cannot raise: names, constants, empty or trivial displays"""
    if isinstance(e, (ast.Name, ast.Constant)):
        return True
    if isinstance(e, (ast.Tuple, ast.List)):
        return all(is_trivial_expr(x) for x in e.elts)
    if isinstance(e, ast.Dict):
        return len(e.keys) == 0
    return False


class Tr:
    def __init__(self, model_name, local_fns, defs=None, stack=()):
        self.m = model_name
        self.local_fns = local_fns
        self.defs = defs or {}       # name -> FunctionDef of the module (for inlining private helpers)
        self.stack = stack           # helpers currently being inlined (recursion guard)

    def inline(self, name, line):
        """Skeleton of a private helper taking the model, inlined at its call site: argument
        evaluation may raise, then the helper's body runs in its own return scope."""
        if name in self.stack or len(self.stack) > 4:
            raise Untranslatable('line %d: recursive helper %s' % (line, name))
        d = self.defs[name]
        mname = [a.arg for a in d.args.args if a.arg == 'model'][0]
        sub = Tr(mname, self.local_fns, self.defs, self.stack + (name,))
        return seq(['MayRaise %d' % line, '(Scope %s)' % sub.block(d.body)])

    # ---- expression classification -----------------------------------------------------
    def classify(self, node, line):
        """Skeleton atom for evaluating the expression(s) in `node` at source line `line`."""
        if node is None:
            return 'Skip'
        uses_model = self.m in names_in(node)
        if not uses_model:
            return 'Skip' if is_trivial_expr(node) else 'MayRaise %d' % line
        atoms = []
        for sub in ast.walk(node):
            if not isinstance(sub, ast.Call):
                continue
            f = sub.func
            # model(...)
            if isinstance(f, ast.Name) and f.id == self.m:
                atoms.append('Forward %d' % line)
                continue
            # model.apply(_register_hooks) / model.apply(_clear_hooks)
            if (isinstance(f, ast.Attribute) and f.attr == 'apply' and isinstance(f.value, ast.Name)
                    and f.value.id == self.m and len(sub.args) == 1 and isinstance(sub.args[0], ast.Name)):
                if sub.args[0].id == '_register_hooks':
                    atoms.append('Register %d' % line)
                    continue
                if sub.args[0].id == '_clear_hooks':
                    atoms.append('Clear')
                    continue
                raise Untranslatable('line %d: model.apply(%s)' % (line, sub.args[0].id))
            # model[.to(...)].eval()
            if isinstance(f, ast.Attribute) and f.attr == 'eval' and self.m in names_in(f.value):
                v = f.value
                while isinstance(v, ast.Call) and isinstance(v.func, ast.Attribute) and v.func.attr in ('to', 'cpu', 'cuda'):
                    v = v.func.value
                if isinstance(v, ast.Name) and v.id == self.m:
                    atoms.append('EvalMode %d' % line)
                    continue
                raise Untranslatable('line %d: unsupported .eval() receiver' % line)
            # inner .to(...) of the chain above, read-only accessors
            if isinstance(f, ast.Attribute) and isinstance(f.value, ast.Name) and f.value.id == self.m:
                if f.attr in ('to', 'cpu', 'cuda') or f.attr in READONLY_MODEL_ATTRS:
                    continue
                raise Untranslatable('line %d: model.%s(...) is not in the translator table' % (line, f.attr))
            # api_function(model, ...) / func(model, ...)
            argnames = set()
            for a in list(sub.args) + [k.value for k in sub.keywords]:
                if isinstance(a, ast.Name):
                    argnames.add(a.id)
                elif isinstance(a, ast.Starred) and isinstance(a.value, ast.Name):
                    argnames.add(a.value.id)
            if self.m in argnames:
                if (isinstance(f, ast.Name) and f.id in self.local_fns and f.id.startswith('_')
                        and f.id in self.defs and f.id not in API_NAMES):
                    atoms.append(self.inline(f.id, line))
                    continue
                if isinstance(f, ast.Name) and (f.id in CALLEE_NAMES or f.id in self.local_fns):
                    atoms.append('CallApi %d' % line)
                    continue
                if isinstance(f, ast.Name) and f.id in ('isinstance', 'next', 'type', 'id', 'len'):
                    continue
                raise Untranslatable('line %d: model passed to unknown callee %s' % (line, ast.dump(f)[:60]))
        # any remaining bare use of the name must be one of the recognised shapes
        for sub in ast.walk(node):
            if isinstance(sub, ast.Attribute) and isinstance(sub.value, ast.Name) and sub.value.id == self.m:
                if sub.attr not in READONLY_MODEL_ATTRS | {'to', 'cpu', 'cuda', 'eval', 'apply', 'training'}:
                    raise Untranslatable('line %d: model.%s' % (line, sub.attr))
        if not atoms:
            return 'MayRaise %d' % line
        # an EvalMode statement `model = model.to(device).eval()` is exactly one atom; otherwise
        # sequence the atoms (each may raise) in evaluation order of ast.walk (outer first is
        # irrelevant for the three tracked facts except Register/Clear, which never nest)
        return seq(atoms)

    # ---- statements ----------------------------------------------------------------------
    def block(self, stmts):
        return seq([self.stmt(s) for s in stmts])

    def stmt(self, st):
        ln = getattr(st, 'lineno', 0)
        if isinstance(st, ast.Expr):
            if isinstance(st.value, ast.Constant) and isinstance(st.value.value, str):
                return 'Skip'
            # list building on local lists cannot touch the model; it may still raise
            return self.classify(st.value, ln)
        if isinstance(st, (ast.Assign, ast.AugAssign, ast.AnnAssign)):
            targets = st.targets if isinstance(st, ast.Assign) else [st.target]
            for t in targets:
                for sub in ast.walk(t):
                    if isinstance(sub, ast.Attribute) and isinstance(sub.ctx, ast.Store):
                        if sub.attr != '_NON_LINEAR_OPS':
                            raise Untranslatable('line %d: attribute store .%s' % (ln, sub.attr))
                if not isinstance(t, (ast.Name, ast.Tuple, ast.List, ast.Attribute, ast.Subscript, ast.Starred)):
                    raise Untranslatable('line %d: assignment target' % ln)
            trivial_target = all(isinstance(t, ast.Name) or
                                 (isinstance(t, (ast.Tuple, ast.List)) and all(isinstance(e, ast.Name) for e in t.elts))
                                 for t in targets)
            val = st.value
            a = self.classify(val, ln)
            if a == 'Skip' and not (trivial_target and not isinstance(st, ast.AugAssign)
                                    and not (isinstance(val, (ast.Tuple, ast.List)) and isinstance(targets[0], (ast.Tuple, ast.List))
                                             and len(val.elts) != len(targets[0].elts))):
                a = 'MayRaise %d' % ln
            return a
        if isinstance(st, ast.Delete):
            for t in st.targets:
                if isinstance(t, ast.Attribute) and t.attr != '_NON_LINEAR_OPS':
                    raise Untranslatable('line %d: del of attribute .%s' % (ln, t.attr))
            return 'MayRaise %d' % ln
        if isinstance(st, ast.Return):
            a = self.classify(st.value, ln)
            return seq([a, 'Return'])
        if isinstance(st, ast.Raise):
            return 'Raise'
        if isinstance(st, ast.Pass):
            return 'Skip'
        if isinstance(st, ast.Break):
            return 'Break'
        if isinstance(st, ast.Continue):
            return 'Continue'
        if isinstance(st, ast.If):
            t = self.classify(st.test, ln)
            return seq([t, '(If %s %s)' % (self.block(st.body), self.block(st.orelse))])
        if isinstance(st, ast.For):
            if self.m in names_in(st.iter):
                ok = (isinstance(st.iter, ast.Call) and isinstance(st.iter.func, ast.Attribute)
                      and isinstance(st.iter.func.value, ast.Name) and st.iter.func.value.id == self.m
                      and st.iter.func.attr in READONLY_MODEL_ATTRS)
                if not ok:
                    raise Untranslatable('line %d: loop over model expression' % ln)
            # the iterable is evaluated once, next() runs before every iteration and at exit
            head = 'MayRaise %d' % ln
            # for/else: the else suite runs unless the loop was left by break - over-approximated
            # as "may or may not run"
            tail = ['(If %s Skip)' % self.block(st.orelse)] if st.orelse else []
            return seq([head, '(Loop %s)' % seq([head, self.block(st.body)]), head] + tail)
        if isinstance(st, ast.While):
            if st.orelse:
                raise Untranslatable('line %d: while/else' % ln)
            t = self.classify(st.test, ln)
            return seq(['(Loop %s)' % seq([t, self.block(st.body)]), t])
        if isinstance(st, ast.With):
            for it in st.items:
                ce = it.context_expr
                name = None
                if isinstance(ce, ast.Call):
                    f = ce.func
                    name = f.attr if isinstance(f, ast.Attribute) else (f.id if isinstance(f, ast.Name) else None)
                if name not in GRAD_CONTEXTS or self.m in names_in(ce):
                    raise Untranslatable('line %d: with-statement over %s' % (ln, ast.dump(ce)[:60]))
            return seq(['MayRaise %d' % ln, self.block(st.body)])
        if isinstance(st, ast.Try):
            if st.orelse:
                raise Untranslatable('line %d: try/else' % ln)
            body = self.block(st.body)
            cur = body
            if st.handlers:
                # handlers are tried in order; one that names a class narrower than Exception
                # may or may not apply (not applying = the exception propagates)
                h_all = 'Raise'
                for h in reversed(st.handlers):
                    hb = self.block(h.body)
                    broad = h.type is None or (isinstance(h.type, ast.Name) and h.type.id in ('Exception', 'BaseException'))
                    h_all = hb if broad else '(If %s %s)' % (hb, h_all)
                cur = '(Try %s %s)' % (body, h_all)
            if st.finalbody:
                cur = '(Finally %s %s)' % (cur, self.block(st.finalbody))
            return cur
        if isinstance(st, (ast.Import, ast.ImportFrom)):
            return 'MayRaise %d' % ln
        if isinstance(st, ast.Assert):
            return 'MayRaise %d' % ln
        raise Untranslatable('line %d: statement %s' % (ln, type(st).__name__))


def seq(items):
    items = [i for i in items if i != 'Skip']
    if not items:
        return 'Skip'
    out = items[-1] if items[-1].startswith('(') or ' ' not in items[-1] else '(%s)' % items[-1]
    for it in reversed(items[:-1]):
        a = it if it.startswith('(') or ' ' not in it else '(%s)' % it
        out = '(Seq %s %s)' % (a, out)
    return out


def translate_all(repo=None):
    """Returns (functions, errors): functions = list of dicts {id, name, file, first_line, term,
    raise_lines}; errors = list of strings (untranslatable constructs)."""
    repo = repo or C.REPO
    fns, errors = [], []
    fid = 0
    for fname, wanted in API:
        path = os.path.join(repo, 'tangermeme', fname)
        try:
            tree = ast.parse(open(path).read())
        except Exception as e:
            errors.append('%s: cannot parse: %r' % (fname, e))
            continue
        defs = {n.name: n for n in tree.body if isinstance(n, ast.FunctionDef)}
        local_model_fns = {n for n, d in defs.items()
                           if any(a.arg == 'model' for a in d.args.args) and not n.startswith('_captum')}
        # closure: wanted + local helpers taking the model that they call
        todo, seen = list(wanted), []
        while todo:
            n = todo.pop(0)
            if n in seen:
                continue
            if n not in defs:
                errors.append('%s: function %s not found' % (fname, n))
                continue
            seen.append(n)
            for sub in ast.walk(defs[n]):
                if isinstance(sub, ast.Call) and isinstance(sub.func, ast.Name) and sub.func.id in local_model_fns:
                    todo.append(sub.func.id)
        for n in seen:
            d = defs[n]
            if not any(a.arg == 'model' for a in d.args.args):
                errors.append('%s: %s has no `model` parameter' % (fname, n))
                continue
            tr = Tr('model', local_model_fns, defs)
            try:
                term = tr.block(d.body)
            except Untranslatable as e:
                errors.append('%s:%s: %s' % (fname, n, e))
                term = 'Raise'   # placeholder, never claimed clean: the error list fails the run
            import re
            lines = sorted({int(x) for x in re.findall(r'(?:MayRaise|Register|EvalMode|Forward|CallApi) (\d+)', term)})
            fns.append({'id': fid, 'name': n, 'file': fname, 'first_line': d.lineno, 'term': term,
                        'raise_lines': lines, 'helper': n not in wanted})
            fid += 1
    return fns, errors


def write_generated(fns, path=None):
    path = path or os.path.join(C.COQ, 'C07', 'Generated.v')
    out = ['(* GENERATED by harness/skeleton.py from the current source of /repo - do not edit. *)',
           'From Coq Require Import List. Import ListNotations.',
           'From TM Require Import C07.Lang.', '']
    for f in fns:
        out.append('(* %s:%s (def at line %d) *)' % (f['file'], f['name'], f['first_line']))
        out.append('Definition skel_%d : stmt := %s.' % (f['id'], f['term']))
        out.append('')
    # the API functions (private helpers inlined at their call sites): these must be clean
    out.append('Definition skeletons : list (nat * stmt) := [%s].' %
               '; '.join('(%d, skel_%d)' % (f['id'], f['id']) for f in fns if not f.get('helper')))
    # private helpers on their own: only used to validate line classifications of injected crashes
    out.append('Definition helper_skeletons : list (nat * stmt) := [%s].' %
               '; '.join('(%d, skel_%d)' % (f['id'], f['id']) for f in fns if f.get('helper')))
    txt = '\n'.join(out) + '\n'
    old = open(path).read() if os.path.exists(path) else None
    if old != txt:
        with open(path, 'w') as fh:
            fh.write(txt)
    return path
