"""C18 - annotation and k-mer counting: correspondence with coq/C18 (model + enumeration spec)."""
import itertools
from fractions import Fraction

import numpy
import pandas
import torch

from . import common as C

torch.set_num_threads(1)     # tiny tensors: thread hand-off costs more than the work

PID = 'C18'
IMPORTS = ['Base.OneHot', 'C18.Model', 'C18.Spec']
CASE_TYPE = 'case'
CHECK = 'check_case'
SHARD = 60
RULE = ('kmers: every sequence over ACGT up to the tier length (all of length <= 6 in thorough, <= 5 plus a '
        'sample of length 6 in quick) for every k in 1..min(4, L), batched, without scores, plus the same '
        'with dyadic scores on a sample, plus random longer sequences over alphabets 2-5 and a malformed '
        'stream (all-zero / two-hot columns, k = 0, k > L); annotation tables: 1-200 rows, 1-8 examples, '
        '1-10 annotation types, spans built to abut, overlap, nest, coincide, share a start and lie exactly '
        'max_distance-1 / max_distance / max_distance+1 apart, rows shuffled, as tensor / tuple of tensors, '
        'ndarrays, Series / DataFrame, explicit shapes (fitting and too small), dim None/0/1, symmetric '
        'and not, several result dtypes (uint8 only where no count can exceed 255); a malformed stream '
        '(negative entries, empty spans). non-trivial = count table with a repeated (example, annotation) '
        'row; pairwise table with two rows in one example; spacing table with a same-example pair whose gap '
        'd satisfies d <= 0 or d >= max_distance-1; k-mer call where some k-mer occurs twice in a sequence')
EXHAUSTIVE = {'quick': False, 'thorough': True}
TRUSTED = ['conversion of returned tensors to nested integer lists (tolist) and of float32 score sums to exact '
           'fractions (scores are dyadic, so float32 accumulation is exact: tolerance 0)']
ASSUMPTIONS = ['counts stay within the result dtype (the property\'s side condition; the generator keeps them so)',
               'torch.scatter_add_, conv1d on int32/float32 and numpy integer indexing behave as modelled '
               '(exercised by every case)']


# ----------------------------------------------------------------------------------------
# running the implementation

DTYPES = {'uint8': torch.uint8, 'int16': torch.int16, 'int32': torch.int32, 'int64': torch.int64}


def _vec(kind, xs, xdtype):
    if kind == 'tensor':
        return torch.tensor(xs, dtype=getattr(torch, xdtype))
    if kind == 'numpy':
        return numpy.array(xs, dtype=xdtype)
    return pandas.Series(numpy.array(xs, dtype=xdtype))


def table_arg(inp):
    rows = inp['rows']
    form = inp['form']
    xd = inp.get('xdtype', 'int64')
    ncol = 4 if inp['kind'] == 'spacing' else 2
    if form == 'tensor':
        return torch.tensor(rows, dtype=getattr(torch, xd)).reshape(-1, ncol)
    if inp['kind'] != 'spacing':
        kinds = {'tuple_tensor': ('tensor', 'tensor'), 'tuple_numpy': ('numpy', 'numpy'),
                 'tuple_series': ('series', 'series'), 'tuple_mixed': ('series', 'tensor'),
                 'list_mixed': ('numpy', 'tensor')}[form]
        cols = [_vec(kinds[j], [r[j] for r in rows], xd) for j in range(2)]
        return list(cols) if form.startswith('list') else tuple(cols)
    if form == 'df':
        return pandas.DataFrame(numpy.array(rows, dtype=xd).reshape(-1, 4),
                                columns=['example_idx', 'motif_idx', 'start', 'end'])
    # (BED-like frame with example, start, end ; vector of annotation ids)
    bed = pandas.DataFrame(numpy.array([[r[0], r[2], r[3]] for r in rows], dtype=xd).reshape(-1, 3),
                           columns=['example_idx', 'start', 'end'])
    ann = [r[1] for r in rows]
    if form == 'tuple_df_tensor':
        return (bed, torch.tensor(ann, dtype=getattr(torch, xd)))
    if form == 'tuple_df_numpy':
        return (bed, numpy.array(ann, dtype=xd))
    if form == 'list_df_tensor2d':
        return [bed, torch.tensor(ann, dtype=getattr(torch, xd)).unsqueeze(1)]
    raise KeyError(form)


def ohe(n, seqs):
    """seqs: lists of letter codes (k >= 0 one-hot at k; -1 all-zero column; -2 two ones)."""
    B, L = len(seqs), len(seqs[0]) if seqs else 0
    X = torch.zeros(B, n, L, dtype=torch.float32)
    for b, s in enumerate(seqs):
        for p, c in enumerate(s):
            if c >= 0:
                X[b, c, p] = 1
            elif c == -2:
                X[b, 0, p] = 1
                X[b, n - 1, p] = X[b, n - 1, p] + 1
    return X


def columns(n, s):
    out = []
    for c in s:
        col = [0] * n
        if c >= 0:
            col[c] = 1
        elif c == -2:
            col[0] += 1
            col[n - 1] += 1
        out.append(col)
    return out


def frac(x):
    return Fraction(x[0], x[1])


def run_impl(inp):
    from tangermeme import annotate, kmers as kmod
    kind = inp['kind']
    try:
        kw = {}
        if kind != 'kmers' and inp.get('dtype', 'default') != 'default':
            kw['dtype'] = DTYPES[inp['dtype']]
        if kind == 'count':
            shape = None if inp['shape'] is None else tuple(inp['shape'])
            y = annotate.count_annotations(table_arg(inp), shape=shape, dim=inp['dim'], **kw)
        elif kind == 'pair':
            y = annotate.pairwise_annotations(table_arg(inp), symmetric=inp['sym'], shape=inp['shape'], **kw)
        elif kind == 'spacing':
            y = annotate.pairwise_annotations_spacing(table_arg(inp), max_distance=inp['maxd'],
                                                      symmetric=inp['sym'], shape=inp['shape'], **kw)
        elif kind == 'kmers':
            X = ohe(inp['n'], inp['seqs'])
            sc = None
            if inp['scores'] is not None:
                sc = torch.tensor([[float(frac(v)) for v in row] for row in inp['scores']],
                                  dtype=torch.float32).reshape(len(inp['scores']), -1)
            y = kmod.kmers(X, inp['k'], scores=sc)
        else:
            raise KeyError(kind)
        y = y.detach().cpu()
        if kind == 'kmers' and inp['scores'] is not None:
            val = [[[Fraction(v).numerator, Fraction(v).denominator] for v in row]
                   for row in y.to(torch.float64).tolist()]
            return {'ok': True, 'rank': 'Q', 'val': val}
        if y.dtype.is_floating_point:
            if not torch.equal(y, y.round()):
                return {'ok': True, 'rank': 'nonintegral', 'val': None}
            y = y.to(torch.int64)
        return {'ok': True, 'rank': y.dim(), 'val': y.to(torch.int64).tolist()}
    except Exception as e:
        return {'ok': False, 'err': type(e).__name__}


# ----------------------------------------------------------------------------------------
# Coq literals

def qc(fr):
    fr = Fraction(fr)
    return '(qc %s %d)' % (C.z(fr.numerator), fr.denominator)


def pair2(r):
    return '(%s, %s)' % (C.z(r[0]), C.z(r[1]))


def row4(r):
    return '(%s, (%s, %s, %s))' % (C.z(r[0]), C.z(r[1]), C.z(r[2]), C.z(r[3]))


def call_lit(inp):
    kind = inp['kind']
    if kind == 'count':
        dim = {None: 'DNone', 0: 'D0', 1: 'D1'}[inp['dim']]
        return '(CCount %s %s %s)' % (C.lst([pair2(r) for r in inp['rows']]),
                                      C.opt(inp['shape'], pair2), dim)
    if kind == 'pair':
        return '(CPair %s %s %s)' % (C.lst([pair2(r) for r in inp['rows']]), C.boolean(inp['sym']),
                                     C.opt(inp['shape']))
    if kind == 'spacing':
        return '(CSpacing %s %s %s %s)' % (C.lst([row4(r) for r in inp['rows']]), C.z(inp['maxd']),
                                           C.boolean(inp['sym']), C.opt(inp['shape']))
    n = inp['n']
    L = len(inp['seqs'][0]) if inp['seqs'] else 0
    X = C.lst([C.lst([C.zlist(c) for c in columns(n, s)]) for s in inp['seqs']])
    if inp['scores'] is None:
        sc = 'None'
    else:
        sc = '(Some %s)' % C.lst([C.lst([qc(frac(v)) for v in row]) for row in inp['scores']])
    return '(CKmers %s %s %s %s %s)' % (C.nat(n), C.nat(L), X, C.nat(inp['k']), sc)


def out_lit(out):
    if not out['ok']:
        return 'Err'
    r, v = out['rank'], out['val']
    if r == 1:
        return '(Ok (T1 %s))' % C.zlist(v)
    if r == 2:
        return '(Ok (T2 %s))' % C.zmat(v)
    if r == 3:
        return '(Ok (T3 %s))' % C.lst([C.zmat(m) for m in v])
    if r == 'Q':
        return '(Ok (TQ %s))' % C.lst([C.lst([qc(frac(x)) for x in row]) for row in v])
    return '(Ok (T1 [(-1)]))'      # a result no count tensor can be (scalar, non-integral, rank > 3)


def coq_case(inp, out):
    return '(%s, %s)' % (call_lit(inp), out_lit(out))


# ----------------------------------------------------------------------------------------
# evidence helpers

def _gaps(inp):
    """gaps d of the same-example pairs (left = smaller start), for the non-triviality rule only"""
    by = {}
    for r in inp['rows']:
        by.setdefault(r[0], []).append(r)
    for rs in by.values():
        for i in range(len(rs)):
            for j in range(i + 1, len(rs)):
                a, b = (rs[i], rs[j]) if rs[i][2] < rs[j][2] else (rs[j], rs[i])
                yield b[2] - a[3]


def nontrivial(inp, out):
    kind = inp['kind']
    if kind == 'count':
        keys = [tuple(r) for r in inp['rows']]
        return len(set(keys)) < len(keys)
    if kind == 'pair':
        ex = [r[0] for r in inp['rows']]
        return len(set(ex)) < len(ex)
    if kind == 'spacing':
        return any(d <= 0 or d >= inp['maxd'] - 1 for d in _gaps(inp))
    k = inp['k']
    for s in inp['seqs']:
        ws = [tuple(s[p:p + k]) for p in range(len(s) - k + 1)] if k >= 1 else []
        if len(set(ws)) < len(ws):
            return True
    return False


def hist_key(inp, out):
    kind = inp['kind']
    if kind == 'kmers':
        return 'kmers/%s/%s' % ('scores' if inp['scores'] is not None else 'counts', 'ok' if out['ok'] else 'raise')
    return '%s/%s/%s' % (kind, inp['form'], 'ok' if out['ok'] else 'raise')


def tags(inp, out):
    return set()


# ----------------------------------------------------------------------------------------
# generators

def rand_scores(rng, B, L):
    return [[[rng.randint(-32, 32), 4] for _ in range(L)] for _ in range(B)]


def gen_kmers(tier, rng):
    quick = tier != 'thorough'
    n = 4
    for L in range(1, 7):
        seqs = [list(t) for t in itertools.product(range(n), repeat=L)]
        if quick and L == 6:
            seqs = rng.sample(seqs, 512)
        for k in range(1, min(4, L) + 1):
            B = 64 if k < 4 else 32
            for i in range(0, len(seqs), B):
                yield {'kind': 'kmers', 'n': n, 'seqs': seqs[i:i + B], 'k': k, 'scores': None}
        # with scores, on a sample
        m = min(len(seqs), 48 if quick else 256)
        sample = rng.sample(seqs, m)
        for k in range(1, min(4, L) + 1):
            for i in range(0, m, 8):
                part = sample[i:i + 8]
                yield {'kind': 'kmers', 'n': n, 'seqs': part, 'k': k, 'scores': rand_scores(rng, len(part), L)}
    # random longer sequences, other alphabets
    for _ in range(60 if quick else 600):
        n = rng.choice([2, 3, 4, 4, 4, 5])
        L = rng.choice([7, 8, 10, 13, 20, 35, 60])
        k = rng.choice([1, 2, 3, 4]) if n <= 4 else rng.choice([1, 2, 3])
        B = rng.randint(1, 4)
        low = rng.random() < 0.4     # low-complexity: many repeated k-mers
        seqs = [[rng.randrange(2 if low else n) for _ in range(L)] for _ in range(B)]
        sc = rand_scores(rng, B, L) if rng.random() < 0.4 else None
        yield {'kind': 'kmers', 'n': n, 'seqs': seqs, 'k': k, 'scores': sc}
    # malformed / out-of-scope stream
    for _ in range(20 if quick else 100):
        n = rng.choice([2, 3, 4])
        L = rng.randint(1, 8)
        B = rng.randint(1, 3)
        seqs = [[rng.randrange(n) for _ in range(L)] for _ in range(B)]
        k = rng.choice([1, 2, 3])
        what = rng.choice(['zero', 'two', 'k0', 'kbig'])
        if what == 'zero':
            seqs[0][rng.randrange(L)] = -1
        elif what == 'two':
            seqs[0][rng.randrange(L)] = -2
        elif what == 'k0':
            k = 0
        else:
            k = L + rng.randint(1, 2)
        yield {'kind': 'kmers', 'n': n, 'seqs': seqs, 'k': k, 'scores': None}


def gen_spans(rng, n_rows, maxd, span=40):
    """start/end pairs with the relations the property names"""
    spans = []
    for _ in range(n_rows):
        if not spans or rng.random() < 0.2:
            s = rng.randint(0, span)
            spans.append((s, s + rng.randint(1, 8)))
            continue
        ps, pe = rng.choice(spans)
        w = rng.randint(1, 8)
        rel = rng.choice(['abut', 'abut_left', 'max', 'max-1', 'max+1', 'max_left', 'overlap', 'nest',
                          'coincide', 'same_start', 'same_end', 'near', 'far'])
        if rel == 'abut':
            s, e = pe, pe + w
        elif rel == 'abut_left':
            s, e = ps - w, ps
        elif rel == 'max':
            s, e = pe + maxd, pe + maxd + w
        elif rel == 'max-1':
            s, e = pe + maxd - 1, pe + maxd - 1 + w
        elif rel == 'max+1':
            s, e = pe + maxd + 1, pe + maxd + 1 + w
        elif rel == 'max_left':
            s, e = ps - maxd - w, ps - maxd
        elif rel == 'overlap':
            s = rng.randint(ps, pe - 1)
            e = s + w
        elif rel == 'nest':
            s = rng.randint(ps, pe - 1)
            e = rng.randint(s + 1, pe)
        elif rel == 'coincide':
            s, e = ps, pe
        elif rel == 'same_start':
            s, e = ps, ps + w
        elif rel == 'same_end':
            s, e = pe - w, pe
        elif rel == 'near':
            s = pe + rng.randint(0, max(0, maxd))
            e = s + w
        else:
            s = pe + maxd + rng.randint(2, 30)
            e = s + w
        if s < 0:
            s, e = 0, max(1, e - s)
        spans.append((s, e))
    return spans


def table_shape(rng):
    """(rows, examples, annotation types)"""
    r = rng.random()
    if r < 0.55:
        return rng.randint(1, 12), rng.randint(1, 3), rng.randint(1, 4)
    if r < 0.9:
        return rng.randint(10, 60), rng.randint(1, 8), rng.randint(1, 10)
    return rng.randint(100, 200), rng.randint(1, 8), rng.randint(1, 10)


def gen_tables(tier, rng):
    quick = tier != 'thorough'
    for _ in range(500 if quick else 5000):
        kind = rng.choice(['count', 'pair', 'spacing', 'spacing'])
        N, nE, nA = table_shape(rng)
        ex = [rng.randrange(nE) for _ in range(N)]
        an = [rng.randrange(nA) for _ in range(N)]
        xd = rng.choice(['int64', 'int64', 'int32'])
        if kind == 'count':
            rows = [[ex[i], an[i]] for i in range(N)]
            needE, needA = max(ex) + 1, max(an) + 1
            shape = None
            r = rng.random()
            if r < 0.35:
                shape = [needE + rng.randint(0, 2), needA + rng.randint(0, 2)]
            elif r < 0.45:
                shape = [max(0, needE + rng.choice([-1, 0, 1])), max(0, needA + rng.choice([-1, 0]))]
            yield {'kind': 'count', 'rows': rows, 'shape': shape, 'dim': rng.choice([None, None, 0, 1]),
                   'form': rng.choice(['tensor', 'tensor', 'tuple_tensor', 'tuple_numpy', 'tuple_series',
                                       'tuple_mixed', 'list_mixed']),
                   'dtype': rng.choice(['default', 'uint8', 'int32', 'int64']), 'xdtype': xd}
            continue
        sym = rng.random() < 0.85
        if kind == 'pair':
            rows = [[ex[i], an[i]] for i in range(N)]
            need = max(an) + 1
            r = rng.random()
            shape = None if r < 0.6 else (need + rng.randint(0, 2) if r < 0.9 else max(0, need - 1))
            yield {'kind': 'pair', 'rows': rows, 'sym': sym, 'shape': shape,
                   'form': rng.choice(['tensor', 'tensor', 'tuple_tensor', 'tuple_numpy', 'tuple_series',
                                       'tuple_mixed']),
                   'dtype': 'int64' if N > 22 else rng.choice(['default', 'uint8', 'int32']), 'xdtype': xd}
            continue
        # the spec enumerates pairs x cells: keep big tables on few cells
        if N > 60:
            nA = min(nA, 4)
            an = [rng.randrange(nA) for _ in range(N)]
        maxd = rng.choice([1, 2, 3, 5, 8, 12]) if N <= 60 else rng.choice([1, 2, 3, 5])
        by = {}
        for i in range(N):
            by.setdefault(ex[i], []).append(i)
        rows = [None] * N
        for e, idxs in by.items():
            sp = gen_spans(rng, len(idxs), maxd)
            rng.shuffle(sp)
            for i, (s, en) in zip(idxs, sp):
                rows[i] = [e, an[i], s, en]
        need = max(an) + 1
        r = rng.random()
        shape = None if r < 0.6 else (need + rng.randint(0, 2) if r < 0.9 else max(0, need - 1))
        yield {'kind': 'spacing', 'rows': rows, 'maxd': maxd, 'sym': sym, 'shape': shape,
               'form': rng.choice(['tensor', 'tensor', 'df', 'tuple_df_tensor', 'tuple_df_numpy',
                                   'list_df_tensor2d']),
               'dtype': 'int64' if N > 22 else rng.choice(['default', 'uint8', 'int32', 'int64']),
               'xdtype': xd}
    # malformed / out-of-scope stream
    for _ in range(30 if quick else 200):
        kind = rng.choice(['count', 'pair', 'spacing'])
        N = rng.randint(0, 6)
        what = rng.choice(['negative', 'empty', 'emptyspan', 'maxd0'])
        if what == 'empty':
            N = 0
        if kind == 'spacing':
            rows = []
            for i in range(N):
                s = rng.randint(0, 20)
                rows.append([rng.randrange(2), rng.randrange(3), s, s + rng.randint(1, 5)])
            maxd = 4
            if N and what == 'negative':
                rows[rng.randrange(N)][rng.randrange(4)] = -1
            if N and what == 'emptyspan':
                r = rows[rng.randrange(N)]
                r[3] = r[2] - rng.randint(0, 2)
                if r[3] < 0:
                    r[3] = r[2]
            if what == 'maxd0':
                maxd = 0
            yield {'kind': 'spacing', 'rows': rows, 'maxd': maxd, 'sym': True, 'shape': None,
                   'form': 'tensor', 'dtype': 'int64', 'xdtype': 'int64'}
        else:
            rows = [[rng.randrange(3), rng.randrange(3)] for i in range(N)]
            if N and what == 'negative':
                rows[rng.randrange(N)][rng.randrange(2)] = -1
            if kind == 'count':
                yield {'kind': 'count', 'rows': rows, 'shape': None, 'dim': rng.choice([None, 0, 1]),
                       'form': 'tensor', 'dtype': 'int64', 'xdtype': 'int64'}
            else:
                yield {'kind': 'pair', 'rows': rows, 'sym': True, 'shape': None, 'form': 'tensor',
                       'dtype': 'int64', 'xdtype': 'int64'}


def generate(tier, rng):
    for inp in boundary_tables():
        yield inp
    for inp in gen_tables(tier, rng):
        yield inp
    for inp in gen_kmers(tier, rng):
        yield inp


def boundary_tables():
    """every relation of two spans around max_distance, both row orders, both symmetric settings"""
    for maxd in (1, 3):
        for d in (-4, -2, -1, 0, 1, maxd - 1, maxd, maxd + 1, maxd + 5):
            for a, b in ((0, 1), (1, 0), (1, 1)):
                left = [0, a, 2, 6]
                s = 6 + d
                right = [0, b, s, s + 3]
                if s < 0:
                    continue
                for rows in ([left, right], [right, left]):
                    for sym in (True, False):
                        yield {'kind': 'spacing', 'rows': [list(r) for r in rows], 'maxd': maxd, 'sym': sym,
                               'shape': None, 'form': 'tensor', 'dtype': 'int64', 'xdtype': 'int64'}


def search(rng, disagreeing):
    for inp in boundary_tables():
        yield inp
    for _ in range(300):
        maxd = rng.choice([1, 2, 3, 5])
        N = rng.randint(2, 5)
        sp = gen_spans(rng, N, maxd, span=10)
        rows = [[0, rng.randrange(2), s, e] for s, e in sp]
        yield {'kind': 'spacing', 'rows': rows, 'maxd': maxd, 'sym': True, 'shape': None,
               'form': 'tensor', 'dtype': 'int64', 'xdtype': 'int64'}
    for _ in range(100):
        N = rng.randint(1, 6)
        rows = [[rng.randrange(3), rng.randrange(3)] for _ in range(N)]
        yield {'kind': 'count', 'rows': rows, 'shape': None, 'dim': rng.choice([None, 0, 1]),
               'form': 'tensor', 'dtype': 'int64', 'xdtype': 'int64'}
        yield {'kind': 'pair', 'rows': rows, 'sym': True, 'shape': None, 'form': 'tensor',
               'dtype': 'int64', 'xdtype': 'int64'}
    for _ in range(100):
        L = rng.randint(1, 6)
        k = rng.randint(1, min(4, L))
        yield {'kind': 'kmers', 'n': 4, 'seqs': [[rng.randrange(4) for _ in range(L)]], 'k': k, 'scores': None}


def shrink(inp):
    if inp['kind'] == 'kmers':
        seqs = inp['seqs']
        if len(seqs) > 1:
            for i in range(len(seqs)):
                c = dict(inp)
                c['seqs'] = seqs[:i] + seqs[i + 1:]
                if inp['scores'] is not None:
                    c['scores'] = inp['scores'][:i] + inp['scores'][i + 1:]
                yield c
        L = len(seqs[0]) if seqs else 0
        if L > 1:
            for cut in (slice(0, L - 1), slice(1, L)):
                c = dict(inp)
                c['seqs'] = [s[cut] for s in seqs]
                if inp['scores'] is not None:
                    c['scores'] = [s[cut] for s in inp['scores']]
                yield c
        return
    rows = inp['rows']
    if len(rows) > 1:
        half = len(rows) // 2
        if half > 1:
            yield dict(inp, rows=rows[:half])
            yield dict(inp, rows=rows[half:])
        for i in range(min(len(rows), 20)):
            yield dict(inp, rows=rows[:i] + rows[i + 1:])
    if inp.get('form') != 'tensor':
        yield dict(inp, form='tensor')
    if inp.get('shape') is not None:
        yield dict(inp, shape=None)
