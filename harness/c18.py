"""C18 - annotation and k-mer counting: correspondence with coq/C18 (model + enumeration spec).

An input is one call (kind count / pair / spacing / kmers) or a sequence of calls (kind seq) made
one after the other in this process on SHARED argument objects: calls of a sequence that name the
same data, form and dtype receive the very same tensor / ndarray / Series / DataFrame object.
After every call every argument object built so far is compared with a snapshot taken at
construction (values, dtype, index, columns)."""
import copy
import itertools
import json
import resource
from fractions import Fraction

import numpy
import pandas
import torch

from . import common as C

torch.set_num_threads(1)     # tiny tensors: thread hand-off costs more than the work

PID = 'C18'
IMPORTS = ['Base.OneHot', 'C18.Model', 'C18.Spec']
CASE_TYPE = 'case'
CHECK = 'check_case'
SHARD = 60
RULE = ('kmers: every sequence over ACGT up to the tier length (all of length <= 6 in thorough, <= 5 plus a '
        'sample of length 6 in quick) for every k in 1..min(4, L), batched, without scores, plus the same '
        'with dyadic scores on a sample, plus random longer sequences over alphabets 1-6 (X as float32/'
        'float64/float16/int8/uint8/int32/int64/bool, contiguous or a permuted view, scores as float32/'
        'float64/float16/int64, k as int or numpy integer, empty batch) and a malformed stream (all-zero / '
        'two-hot columns, k = 0, k > L); annotation tables: 1-200 rows, 1-8 examples, 1-10 annotation types, '
        'spans built to abut, overlap, nest, coincide, share a start or end and lie exactly max_distance-1 / '
        'max_distance / max_distance+1 apart, optionally shifted by 1e5-1e6, rows shuffled; table dtypes '
        'int64/int32/int16/int8/uint8; forms: (n,k) tensor, tuple/list of tensors, ndarrays, Series (default '
        'and shuffled index), mixed, a [:, :2] view of a 4-column tensor, 4-column DataFrame (default index / '
        'arbitrary index and per-column dtypes), (BED frame, vector), (ndarray (n,3), ndarray), (tensor (n,3), '
        'tensor (n,1)), four separate vectors (tensors / ndarrays / mixed dtypes); explicit shapes equal, '
        'larger (per axis) and too small, as tuple / list / torch.Size / numpy integers; dim None/0/1 (int or '
        'numpy integer); max_distance 0, 1, small, default (argument omitted), 128, 255, 256, 300 on small-'
        'dtype tables; symmetric and not; result dtype default/uint8/int16/int32/int64/float32/float64 '
        '(uint8 only where no count can exceed 255); call sequences on shared objects with one parameter '
        'changed per step (dim, shape, dtype, symmetric, max_distance, k, scores, alphabet); a malformed '
        'stream (negative entries, empty spans, empty table). non-trivial = count table with a repeated '
        '(example, annotation) row; pairwise table with two rows in one example; spacing table with a '
        'same-example pair whose gap d satisfies d <= 0 or d >= max_distance-1; k-mer call where some k-mer '
        'occurs twice in a sequence; a sequence with a non-trivial step')
EXHAUSTIVE = {'quick': False, 'thorough': True}
TRUSTED = ['conversion of returned tensors to nested integer lists (tolist) and of float32 score sums to exact '
           'fractions (scores are dyadic, so float32 accumulation is exact: tolerance 0)',
           'bitwise comparison of every argument object with its snapshot after every call']
ASSUMPTIONS = ['counts stay within the result dtype (the property\'s side condition; the generator keeps them so)',
               'torch.scatter_add_, conv1d on int32/float32 and numpy integer indexing behave as modelled '
               '(exercised by every case)']


# ----------------------------------------------------------------------------------------
# argument objects

DTYPES = {'uint8': torch.uint8, 'int16': torch.int16, 'int32': torch.int32, 'int64': torch.int64,
          'float32': torch.float32, 'float64': torch.float64}
DEFAULT_MAXD = 100
MAX_CELLS = 400000


def _vec(kind, xs, xdtype, rng_index=None):
    if kind == 'tensor':
        return torch.tensor(xs, dtype=getattr(torch, xdtype))
    if kind == 'numpy':
        return numpy.array(xs, dtype=xdtype)
    s = pandas.Series(numpy.array(xs, dtype=xdtype))
    if kind == 'series_index':      # a column of a filtered / re-sorted frame: arbitrary index
        s.index = [(7 * i + 3) % (len(xs) + 5) + 10 for i in range(len(xs))]
    return s


ALT = {'int64': 'int32', 'int32': 'int64', 'int16': 'int64', 'int8': 'int16', 'uint8': 'int16'}


def build_table(call):
    """the object passed as X"""
    rows = call['rows']
    form = call['form']
    xd = call.get('xdtype', 'int64')
    ncol = 4 if call['kind'] == 'spacing' else 2
    if form == 'tensor':
        return torch.tensor(rows, dtype=getattr(torch, xd)).reshape(-1, ncol)
    if call['kind'] != 'spacing':
        kinds = {'tuple_tensor': ('tensor', 'tensor'), 'tuple_numpy': ('numpy', 'numpy'),
                 'tuple_series': ('series', 'series'), 'tuple_mixed': ('series', 'tensor'),
                 'list_mixed': ('numpy', 'tensor'), 'tuple_series_index': ('series_index', 'series_index'),
                 'tuple_mixed_dtypes': ('tensor', 'numpy')}[form]
        dts = (xd, ALT[xd]) if form == 'tuple_mixed_dtypes' else (xd, xd)
        cols = [_vec(kinds[j], [r[j] for r in rows], dts[j]) for j in range(2)]
        return list(cols) if form.startswith('list') else tuple(cols)
    arr = numpy.array(rows, dtype=xd).reshape(-1, 4)
    if form == 'df':
        return pandas.DataFrame(arr, columns=['example_idx', 'motif_idx', 'start', 'end'])
    if form == 'df_index':     # what filtering / sorting a larger frame leaves: arbitrary index, per-column dtypes
        df = pandas.DataFrame({'example_idx': arr[:, 0].astype(ALT[xd]), 'motif_idx': arr[:, 1],
                               'start': arr[:, 2].astype('int64'), 'end': arr[:, 3]})
        df.index = [(5 * i + 2) % (len(rows) + 3) + 100 for i in range(len(rows))]
        return df
    bed_arr = numpy.array([[r[0], r[2], r[3]] for r in rows], dtype=xd).reshape(-1, 3)
    bed = pandas.DataFrame(bed_arr, columns=['example_idx', 'start', 'end'])
    ann = [r[1] for r in rows]
    if form == 'tuple_df_tensor':
        return (bed, torch.tensor(ann, dtype=getattr(torch, xd)))
    if form == 'tuple_df_numpy':
        return (bed, numpy.array(ann, dtype=xd))
    if form == 'list_df_tensor2d':
        return [bed, torch.tensor(ann, dtype=getattr(torch, xd)).unsqueeze(1)]
    if form == 'tuple_nd3_nd1':
        return (bed_arr.copy(), numpy.array(ann, dtype=ALT[xd]))
    if form == 'tuple_t3_t1':
        return (torch.tensor(bed_arr), torch.tensor(ann, dtype=getattr(torch, xd)).unsqueeze(1))
    cols = [[r[0] for r in rows], [r[2] for r in rows], [r[3] for r in rows], ann]   # ex, start, end, ann
    if form == 'tuple_4vec_tensor':
        return tuple(torch.tensor(c, dtype=getattr(torch, xd)) for c in cols)
    if form == 'tuple_4vec_numpy':
        return tuple(numpy.array(c, dtype=xd) for c in cols)
    if form == 'list_4vec_mixed':
        return [torch.tensor(cols[0], dtype=getattr(torch, ALT[xd])), numpy.array(cols[1], dtype='int64'),
                torch.tensor(cols[2], dtype=getattr(torch, xd)), numpy.array(cols[3], dtype=xd)]
    raise KeyError(form)


def ohe(n, seqs, xdt='float32', layout='contig', L0=0):
    """seqs: lists of letter codes (k >= 0 one-hot at k; -1 all-zero column; -2 two ones)."""
    B, L = len(seqs), len(seqs[0]) if seqs else L0
    X = torch.zeros(B, L, n, dtype=torch.float32)
    for b, s in enumerate(seqs):
        for p, c in enumerate(s):
            if c >= 0:
                X[b, p, c] = 1
            elif c == -2:
                X[b, p, 0] = 1
                X[b, p, n - 1] = X[b, p, n - 1] + 1
    X = X.type(getattr(torch, xdt))
    X = X.permute(0, 2, 1)                 # (B, n, L), a non-contiguous view
    return X if layout == 'permuted' else X.contiguous()


def columns(n, s):
    out = []
    for c in s:
        col = [0] * n
        if c >= 0:
            col[c] = 1
        elif c == -2:
            col[0] += 1
            col[n - 1] += 1
        out.append(col)
    return out


def frac(x):
    return Fraction(x[0], x[1])


def snapshot(o):
    return copy.deepcopy(o)


def same(a, b):
    if isinstance(a, (tuple, list)):
        return type(a) is type(b) and len(a) == len(b) and all(same(x, y) for x, y in zip(a, b))
    if isinstance(a, torch.Tensor):
        return a.dtype == b.dtype and a.shape == b.shape and a.stride() == b.stride() and bool(torch.equal(a, b))
    if isinstance(a, numpy.ndarray):
        return a.dtype == b.dtype and a.shape == b.shape and bool(numpy.array_equal(a, b))
    if isinstance(a, pandas.Series):
        return a.dtype == b.dtype and a.index.equals(b.index) and bool(a.equals(b))
    if isinstance(a, pandas.DataFrame):
        return (list(a.columns) == list(b.columns) and a.index.equals(b.index)
                and list(a.dtypes) == list(b.dtypes) and bool(a.equals(b)))
    return a == b


class Objects:
    """argument objects of one sequence, shared between its calls"""

    def __init__(self):
        self.objs = {}

    def get(self, key, make):
        k = json.dumps(key, sort_keys=True)
        if k not in self.objs:
            o = make()
            self.objs[k] = (o, snapshot(o))
        return self.objs[k][0]

    def unchanged(self):
        return all(same(o, s) for o, s in self.objs.values())


def pint(call, v):
    """an integer parameter as the caller's integer type"""
    if v is None:
        return None
    return numpy.int64(v) if call.get('ptype', 'py') == 'numpy' else int(v)


def table_for(call, objs):
    if call['form'] == 'view4':       # the first two columns of a shared 4-column tensor
        xd = call.get('xdtype', 'int64')
        X4 = objs.get(['table', 4, call['rows4'], 'tensor', xd],
                      lambda: torch.tensor(call['rows4'], dtype=getattr(torch, xd)).reshape(-1, 4))
        return X4[:, :2]
    ncol = 4 if call['kind'] == 'spacing' else 2
    return objs.get(['table', ncol, call['rows'], call['form'], call.get('xdtype', 'int64')],
                    lambda: build_table(call))


def run_call(call, objs):
    from tangermeme import annotate, kmers as kmod
    kind = call['kind']
    try:
        kw = {}
        if kind != 'kmers' and call.get('dtype', 'default') != 'default':
            kw['dtype'] = DTYPES[call['dtype']]
        if kind == 'count':
            shape = call['shape']
            if shape is not None:
                shape = [pint(call, v) for v in shape]
                sf = call.get('shape_form', 'tuple')
                shape = tuple(shape) if sf == 'tuple' else (torch.Size(shape) if sf == 'size' else shape)
            y = annotate.count_annotations(table_for(call, objs), shape=shape, dim=pint(call, call['dim']), **kw)
        elif kind == 'pair':
            y = annotate.pairwise_annotations(table_for(call, objs), symmetric=call['sym'],
                                              shape=pint(call, call['shape']), **kw)
        elif kind == 'spacing':
            if call['maxd'] is not None:
                kw['max_distance'] = pint(call, call['maxd'])
            y = annotate.pairwise_annotations_spacing(table_for(call, objs), symmetric=call['sym'],
                                                      shape=pint(call, call['shape']), **kw)
        elif kind == 'kmers':
            xdt, layout = call.get('xdt', 'float32'), call.get('layout', 'contig')
            X = objs.get(['ohe', call['n'], call['seqs'], xdt, layout],
                         lambda: ohe(call['n'], call['seqs'], xdt, layout, call.get('L', 0)))
            sc = None
            if call['scores'] is not None:
                sdt = call.get('sdt', 'float32')
                sc = objs.get(['scores', call['scores'], sdt],
                              lambda: torch.tensor([[float(frac(v)) for v in row] for row in call['scores']],
                                                   dtype=torch.float64).reshape(len(call['scores']), -1)
                              .type(getattr(torch, sdt)))
            y = kmod.kmers(X, pint(call, call['k']), scores=sc)
        else:
            raise KeyError(kind)
        y = y.detach().cpu()
        if y.numel() > MAX_CELLS:      # no call generated here has that many cells to return
            return {'ok': True, 'rank': 'huge', 'val': None}
        if kind == 'kmers' and call['scores'] is not None:
            val = [[[Fraction(v).numerator, Fraction(v).denominator] for v in row]
                   for row in y.to(torch.float64).tolist()]
            return {'ok': True, 'rank': 'Q', 'val': val}
        if y.dtype.is_floating_point:
            if not torch.equal(y, y.round()):
                return {'ok': True, 'rank': 'nonintegral', 'val': None}
            y = y.to(torch.int64)
        if kind == 'kmers' and y.dim() == 2 and y.shape[0] == 0:
            return {'ok': True, 'rank': 2, 'val': []}
        return {'ok': True, 'rank': y.dim(), 'val': y.to(torch.int64).tolist()}
    except Exception as e:
        return {'ok': False, 'err': type(e).__name__}


def calls_of(inp):
    return inp['calls'] if inp['kind'] == 'seq' else [inp]


def _vmsize():
    try:
        with open('/proc/self/status') as f:
            for line in f:
                if line.startswith('VmSize:'):
                    return int(line.split()[1]) * 1024
    except Exception:
        pass
    return 8 << 30


def run_impl(inp):
    # a regression that sizes an array by a coordinate instead of an annotation id must end as an
    # exception of that call (a failing input), not as the OOM killer taking the whole run down
    soft, hard = resource.getrlimit(resource.RLIMIT_AS)
    cap = _vmsize() + (4 << 30)
    if hard == resource.RLIM_INFINITY or cap < hard:
        resource.setrlimit(resource.RLIMIT_AS, (cap, hard))
    try:
        objs = Objects()
        steps = []
        for call in calls_of(inp):
            out = run_call(call, objs)
            out['unchanged'] = objs.unchanged()
            steps.append(out)
        return {'ok': all(s['ok'] for s in steps), 'steps': steps}
    finally:
        resource.setrlimit(resource.RLIMIT_AS, (soft, hard))


# ----------------------------------------------------------------------------------------
# Coq literals

def qc(fr):
    fr = Fraction(fr)
    return '(qc %s %d)' % (C.z(fr.numerator), fr.denominator)


def pair2(r):
    return '(%s, %s)' % (C.z(r[0]), C.z(r[1]))


def row4(r):
    return '(%s, (%s, %s, %s))' % (C.z(r[0]), C.z(r[1]), C.z(r[2]), C.z(r[3]))


def rows_of(call):
    return [r[:2] for r in call['rows4']] if call.get('form') == 'view4' else call['rows']


def call_lit(call):
    kind = call['kind']
    if kind == 'count':
        dim = {None: 'DNone', 0: 'D0', 1: 'D1'}[call['dim']]
        return '(CCount %s %s %s)' % (C.lst([pair2(r) for r in rows_of(call)]),
                                      C.opt(call['shape'], pair2), dim)
    if kind == 'pair':
        return '(CPair %s %s %s)' % (C.lst([pair2(r) for r in rows_of(call)]), C.boolean(call['sym']),
                                     C.opt(call['shape']))
    if kind == 'spacing':
        maxd = DEFAULT_MAXD if call['maxd'] is None else call['maxd']
        return '(CSpacing %s %s %s %s)' % (C.lst([row4(r) for r in call['rows']]), C.z(maxd),
                                           C.boolean(call['sym']), C.opt(call['shape']))
    n = call['n']
    L = len(call['seqs'][0]) if call['seqs'] else call.get('L', 0)
    X = C.lst([C.lst([C.zlist(c) for c in columns(n, s)]) for s in call['seqs']])
    if call['scores'] is None:
        sc = 'None'
    else:
        sc = '(Some %s)' % C.lst([C.lst([qc(frac(v)) for v in row]) for row in call['scores']])
    return '(CKmers %s %s %s %s %s)' % (C.nat(n), C.nat(L), X, C.nat(call['k']), sc)


def out_lit(out):
    if not out['ok']:
        return 'Err'
    r, v = out['rank'], out['val']
    if r == 1:
        return '(Ok (T1 %s))' % C.zlist(v)
    if r == 2:
        return '(Ok (T2 %s))' % C.zmat(v)
    if r == 3:
        return '(Ok (T3 %s))' % C.lst([C.zmat(m) for m in v])
    if r == 'Q':
        return '(Ok (TQ %s))' % C.lst([C.lst([qc(frac(x)) for x in row]) for row in v])
    return '(Ok (T1 [(-1)]))'      # a result no count tensor can be (scalar, non-integral, rank > 3)


def coq_case(inp, out):
    return C.lst(['(%s, %s, %s)' % (call_lit(c), out_lit(o), C.boolean(o['unchanged']))
                  for c, o in zip(calls_of(inp), out['steps'])])


# ----------------------------------------------------------------------------------------
# evidence helpers

def _gaps(call):
    """gaps d of the same-example pairs (left = smaller start), for the non-triviality rule only"""
    by = {}
    for r in call['rows']:
        by.setdefault(r[0], []).append(r)
    for rs in by.values():
        for i in range(len(rs)):
            for j in range(i + 1, len(rs)):
                a, b = (rs[i], rs[j]) if rs[i][2] < rs[j][2] else (rs[j], rs[i])
                yield b[2] - a[3]


def nontrivial_call(call):
    kind = call['kind']
    if kind == 'count':
        keys = [tuple(r) for r in rows_of(call)]
        return len(set(keys)) < len(keys)
    if kind == 'pair':
        ex = [r[0] for r in rows_of(call)]
        return len(set(ex)) < len(ex)
    if kind == 'spacing':
        maxd = DEFAULT_MAXD if call['maxd'] is None else call['maxd']
        return any(d <= 0 or d >= maxd - 1 for d in _gaps(call))
    k = call['k']
    for s in call['seqs']:
        ws = [tuple(s[p:p + k]) for p in range(len(s) - k + 1)] if k >= 1 else []
        if len(set(ws)) < len(ws):
            return True
    return False


def nontrivial(inp, out):
    return any(nontrivial_call(c) for c in calls_of(inp))


def hist_key(inp, out):
    kind = inp['kind']
    ok = 'ok' if out['ok'] else 'raise'
    if kind == 'seq':
        return 'seq/%s/%d/%s' % ('+'.join(sorted(set(c['kind'] for c in inp['calls']))), len(inp['calls']), ok)
    if kind == 'kmers':
        return 'kmers/%s/%s/%s/%s' % ('scores-' + inp.get('sdt', 'float32') if inp['scores'] is not None else 'counts',
                                      inp.get('xdt', 'float32'), inp.get('layout', 'contig'), ok)
    return '%s/%s/%s/%s' % (kind, inp['form'], inp.get('xdtype', 'int64'), ok)


def tags(inp, out):
    return set()


# ----------------------------------------------------------------------------------------
# generators: k-mers

def rand_scores(rng, B, L, integer=False):
    if integer:
        return [[[rng.randint(-8, 8), 1] for _ in range(L)] for _ in range(B)]
    return [[[rng.randint(-32, 32), 4] for _ in range(L)] for _ in range(B)]


XDTS = ['float32', 'float32', 'float32', 'float64', 'float16', 'int8', 'uint8', 'int32', 'int64', 'bool']
SDTS = ['float32', 'float32', 'float64', 'float16', 'int64']


def gen_kmers(tier, rng):
    quick = tier != 'thorough'
    n = 4
    for L in range(1, 7):
        seqs = [list(t) for t in itertools.product(range(n), repeat=L)]
        if quick and L == 6:
            seqs = rng.sample(seqs, 512)
        for k in range(1, min(4, L) + 1):
            B = 64 if k < 4 else 32
            for i in range(0, len(seqs), B):
                yield {'kind': 'kmers', 'n': n, 'seqs': seqs[i:i + B], 'k': k, 'scores': None}
        # with scores, on a sample
        m = min(len(seqs), 48 if quick else 256)
        sample = rng.sample(seqs, m)
        for k in range(1, min(4, L) + 1):
            for i in range(0, m, 8):
                part = sample[i:i + 8]
                yield {'kind': 'kmers', 'n': n, 'seqs': part, 'k': k, 'scores': rand_scores(rng, len(part), L)}
    # random longer sequences, other alphabets, dtypes, layouts, integer types
    for _ in range(90 if quick else 900):
        n = rng.choice([1, 2, 3, 4, 4, 4, 5, 6])
        L = rng.choice([7, 8, 10, 13, 20, 35, 60])
        k = rng.choice([1, 2, 3, 4]) if n <= 4 else rng.choice([1, 2, 3])
        B = rng.randint(1, 4)
        low = rng.random() < 0.4     # low-complexity: many repeated k-mers
        seqs = [[rng.randrange(min(2, n) if low else n) for _ in range(L)] for _ in range(B)]
        sdt = rng.choice(SDTS)
        sc = rand_scores(rng, B, L, integer=(sdt == 'int64')) if rng.random() < 0.45 else None
        yield {'kind': 'kmers', 'n': n, 'seqs': seqs, 'k': k, 'scores': sc, 'xdt': rng.choice(XDTS),
               'layout': rng.choice(['contig', 'permuted']), 'sdt': sdt,
               'ptype': rng.choice(['py', 'py', 'numpy'])}
    # boundary: k = L, k = 1, L = 1, a batch of equal sequences, an empty batch
    for n in (1, 2, 4):
        for L in (1, 2, 5):
            seqs = [[(p * p + b) % n for p in range(L)] for b in range(3)]
            for k in sorted(set([1, L])):
                yield {'kind': 'kmers', 'n': n, 'seqs': seqs, 'k': k, 'scores': None, 'xdt': 'float32'}
                yield {'kind': 'kmers', 'n': n, 'seqs': seqs, 'k': k, 'scores': rand_scores(rng, 3, L),
                       'layout': 'permuted'}
    yield {'kind': 'kmers', 'n': 4, 'seqs': [], 'L': 5, 'k': 2, 'scores': None}
    # malformed / out-of-scope stream
    for _ in range(20 if quick else 100):
        n = rng.choice([2, 3, 4])
        L = rng.randint(1, 8)
        B = rng.randint(1, 3)
        seqs = [[rng.randrange(n) for _ in range(L)] for _ in range(B)]
        k = rng.choice([1, 2, 3])
        what = rng.choice(['zero', 'two', 'k0', 'kbig'])
        if what == 'zero':
            seqs[0][rng.randrange(L)] = -1
        elif what == 'two':
            seqs[0][rng.randrange(L)] = -2
        elif what == 'k0':
            k = 0
        else:
            k = L + rng.randint(1, 2)
        yield {'kind': 'kmers', 'n': n, 'seqs': seqs, 'k': k, 'scores': None}


# ----------------------------------------------------------------------------------------
# generators: tables

def gen_spans(rng, n_rows, maxd, span=40):
    """start/end pairs with the relations the property names"""
    spans = []
    for _ in range(n_rows):
        if not spans or rng.random() < 0.2:
            s = rng.randint(0, span)
            spans.append((s, s + rng.randint(1, 8)))
            continue
        ps, pe = rng.choice(spans)
        w = rng.randint(1, 8)
        rel = rng.choice(['abut', 'abut_left', 'max', 'max-1', 'max+1', 'max_left', 'overlap', 'nest',
                          'coincide', 'same_start', 'same_end', 'near', 'far'])
        if rel == 'abut':
            s, e = pe, pe + w
        elif rel == 'abut_left':
            s, e = ps - w, ps
        elif rel == 'max':
            s, e = pe + maxd, pe + maxd + w
        elif rel == 'max-1':
            s, e = pe + maxd - 1, pe + maxd - 1 + w
        elif rel == 'max+1':
            s, e = pe + maxd + 1, pe + maxd + 1 + w
        elif rel == 'max_left':
            s, e = ps - maxd - w, ps - maxd
        elif rel == 'overlap':
            s = rng.randint(ps, pe - 1)
            e = s + w
        elif rel == 'nest':
            s = rng.randint(ps, pe - 1)
            e = rng.randint(s + 1, pe)
        elif rel == 'coincide':
            s, e = ps, pe
        elif rel == 'same_start':
            s, e = ps, ps + w
        elif rel == 'same_end':
            s, e = pe - w, pe
        elif rel == 'near':
            s = pe + rng.randint(0, max(0, maxd))
            e = s + w
        else:
            s = pe + maxd + rng.randint(2, 30)
            e = s + w
        if s < 0:
            s, e = 0, max(1, e - s)
        spans.append((s, e))
    return spans


def table_shape(rng):
    """(rows, examples, annotation types)"""
    r = rng.random()
    if r < 0.55:
        return rng.randint(1, 12), rng.randint(1, 3), rng.randint(1, 4)
    if r < 0.92:
        return rng.randint(10, 60), rng.randint(1, 8), rng.randint(1, 10)
    return rng.randint(100, 200), rng.randint(1, 8), rng.randint(1, 10)


def pick_xdtype(rng, maxval):
    c = ['int64', 'int64', 'int32']
    if maxval <= 32767:
        c.append('int16')
    if maxval <= 255:
        c += ['uint8', 'uint8']
    if maxval <= 127:
        c += ['int8', 'int8']
    return rng.choice(c)


def pick_shape1(rng, need):
    r = rng.random()
    return None if r < 0.5 else (need + rng.randint(0, 3) if r < 0.9 else max(0, need - 1))


FORMS2 = ['tensor', 'tensor', 'tuple_tensor', 'tuple_numpy', 'tuple_series', 'tuple_mixed', 'list_mixed',
          'tuple_series_index', 'tuple_mixed_dtypes']
FORMS4 = ['tensor', 'tensor', 'df', 'df_index', 'tuple_df_tensor', 'tuple_df_numpy', 'list_df_tensor2d',
          'tuple_nd3_nd1', 'tuple_t3_t1', 'tuple_4vec_tensor', 'tuple_4vec_numpy', 'list_4vec_mixed']


def rand_count(rng, ex, an):
    N = len(ex)
    rows = [[ex[i], an[i]] for i in range(N)]
    needE, needA = max(ex) + 1, max(an) + 1
    shape = None
    r = rng.random()
    if r < 0.4:        # equal or larger, each axis on its own
        shape = [needE + rng.choice([0, 0, 1, 3]), needA + rng.choice([0, 0, 1, 2, 5])]
    elif r < 0.5:      # too small in one axis
        shape = [max(0, needE + rng.choice([-1, 0, 1])), max(0, needA + rng.choice([-1, 0]))]
    return {'kind': 'count', 'rows': rows, 'shape': shape, 'dim': rng.choice([None, None, 0, 1]),
            'form': rng.choice(FORMS2), 'shape_form': rng.choice(['tuple', 'tuple', 'list', 'size']),
            'dtype': rng.choice(['default', 'uint8', 'int16', 'int32', 'int64', 'float32', 'float64']),
            'xdtype': pick_xdtype(rng, max(ex + an)), 'ptype': rng.choice(['py', 'py', 'numpy'])}


def rand_pair(rng, ex, an):
    N = len(ex)
    return {'kind': 'pair', 'rows': [[ex[i], an[i]] for i in range(N)], 'sym': rng.random() < 0.85,
            'shape': pick_shape1(rng, max(an) + 1), 'form': rng.choice(FORMS2),
            'dtype': rng.choice(['int64', 'float64']) if N > 22 else
            rng.choice(['default', 'uint8', 'int16', 'int32', 'float32']),
            'xdtype': pick_xdtype(rng, max(ex + an)), 'ptype': rng.choice(['py', 'py', 'numpy'])}


def rand_spacing(rng, ex, an, nA):
    N = len(ex)
    # the spec enumerates pairs x cells: keep big tables on few cells
    if N > 60:
        nA = min(nA, 4)
        an = [rng.randrange(nA) for _ in range(N)]
    lay = rng.choice([1, 2, 3, 5, 8, 12]) if N <= 60 else rng.choice([1, 2, 3, 5])
    maxd = lay
    r = rng.random()
    if N <= 12 and nA <= 3 and r < 0.3:
        # a distance axis wider than the layout: the default, and values around the range of small dtypes
        maxd = rng.choice([None, None, 100, 127, 128, 200, 255, 256, 300])
    elif r < 0.34:
        maxd = rng.choice([0, 1])
    by = {}
    for i in range(N):
        by.setdefault(ex[i], []).append(i)
    rows = [None] * N
    shift = rng.choice([100000, 999990, 16777216]) if rng.random() < 0.08 else 0
    for e, idxs in by.items():
        sp = gen_spans(rng, len(idxs), lay)
        rng.shuffle(sp)
        for i, (s, en) in zip(idxs, sp):
            rows[i] = [e, an[i], s + shift, en + shift]
    return {'kind': 'spacing', 'rows': rows, 'maxd': maxd, 'sym': rng.random() < 0.85,
            'shape': pick_shape1(rng, max(an) + 1), 'form': rng.choice(FORMS4),
            'dtype': rng.choice(['int64', 'float32']) if N > 22 else
            rng.choice(['default', 'uint8', 'int16', 'int32', 'int64']),
            'xdtype': pick_xdtype(rng, max(max(r) for r in rows)), 'ptype': rng.choice(['py', 'py', 'numpy'])}


def rand_table(rng, kind=None, small=False):
    kind = kind or rng.choice(['count', 'pair', 'spacing', 'spacing'])
    N, nE, nA = (rng.randint(1, 8), rng.randint(1, 3), rng.randint(1, 3)) if small else table_shape(rng)
    ex = [rng.randrange(nE) for _ in range(N)]
    an = [rng.randrange(nA) for _ in range(N)]
    if kind == 'count':
        return rand_count(rng, ex, an)
    if kind == 'pair':
        return rand_pair(rng, ex, an)
    return rand_spacing(rng, ex, an, nA)


def gen_tables(tier, rng):
    quick = tier != 'thorough'
    for _ in range(520 if quick else 5000):
        yield rand_table(rng)
    # malformed / out-of-scope stream
    for _ in range(30 if quick else 200):
        kind = rng.choice(['count', 'pair', 'spacing'])
        N = rng.randint(0, 6)
        what = rng.choice(['negative', 'empty', 'emptyspan', 'maxd0'])
        if what == 'empty':
            N = 0
        if kind == 'spacing':
            rows = []
            for i in range(N):
                s = rng.randint(0, 20)
                rows.append([rng.randrange(2), rng.randrange(3), s, s + rng.randint(1, 5)])
            maxd = 4
            if N and what == 'negative':
                rows[rng.randrange(N)][rng.randrange(4)] = -1
            if N and what == 'emptyspan':
                r = rows[rng.randrange(N)]
                r[3] = r[2] - rng.randint(0, 2)
                if r[3] < 0:
                    r[3] = r[2]
            if what == 'maxd0':
                maxd = 0
            yield {'kind': 'spacing', 'rows': rows, 'maxd': maxd, 'sym': True, 'shape': None,
                   'form': 'tensor', 'dtype': 'int64', 'xdtype': 'int64'}
        else:
            rows = [[rng.randrange(3), rng.randrange(3)] for i in range(N)]
            if N and what == 'negative':
                rows[rng.randrange(N)][rng.randrange(2)] = -1
            if kind == 'count':
                yield {'kind': 'count', 'rows': rows, 'shape': None, 'dim': rng.choice([None, 0, 1]),
                       'form': 'tensor', 'dtype': 'int64', 'xdtype': 'int64'}
            else:
                yield {'kind': 'pair', 'rows': rows, 'sym': True, 'shape': None, 'form': 'tensor',
                       'dtype': 'int64', 'xdtype': 'int64'}


def boundary_tables():
    """every relation of two spans around max_distance, both row orders, both symmetric settings; then the
    same pairs in every table dtype against distance axes around the dtype ranges (and the default)"""
    for maxd in (1, 3):
        for d in (-4, -2, -1, 0, 1, maxd - 1, maxd, maxd + 1, maxd + 5):
            for a, b in ((0, 1), (1, 0), (1, 1)):
                left = [0, a, 2, 6]
                s = 6 + d
                right = [0, b, s, s + 3]
                if s < 0:
                    continue
                for rows in ([left, right], [right, left]):
                    for sym in (True, False):
                        yield {'kind': 'spacing', 'rows': [list(r) for r in rows], 'maxd': maxd, 'sym': sym,
                               'shape': None, 'form': 'tensor', 'dtype': 'int64', 'xdtype': 'int64'}
    k = 0
    for xd in ('uint8', 'int8', 'int16', 'int64'):
        for maxd in (None, 99, 100, 101, 127, 128, 129, 254, 255, 256, 257, 300):
            for gap in (-3, 0, 50, 99, 100):
                # left span [2, 6), right span starts gap after it; coordinates stay below 128
                rows = [[0, 0, 2, 6], [0, 1, 6 + gap, 9 + gap]]
                if k % 2:
                    rows.reverse()
                form = FORMS4[k % len(FORMS4)]
                k += 1
                yield {'kind': 'spacing', 'rows': rows, 'maxd': maxd, 'sym': True, 'shape': None,
                       'form': form, 'dtype': 'int64', 'xdtype': xd, 'ptype': 'numpy' if k % 3 == 0 else 'py'}


# ----------------------------------------------------------------------------------------
# generators: call sequences on shared objects (one thing changed per step)

def vary(call, **kw):
    c = dict(call)
    c.update(kw)
    return c


def gen_seqs(tier, rng):
    quick = tier != 'thorough'
    for _ in range(40 if quick else 300):
        which = rng.choice(['count', 'pair', 'spacing', 'cross', 'kmers_k', 'kmers_scores', 'kmers_alpha'])
        if which == 'count':
            c = rand_table(rng, 'count', small=True)
            needE = max(r[0] for r in c['rows']) + 1
            needA = max(r[1] for r in c['rows']) + 1
            c['shape'] = None
            big = [needE + rng.randint(0, 2), needA + rng.randint(1, 3)]
            calls = [vary(c, dim=None), vary(c, dim=0), vary(c, dim=1), vary(c, dim=None, shape=big),
                     vary(c, dim=0, shape=big), vary(c, dim=None), vary(c, dim=None, dtype='int64'),
                     vary(c, dim=1, shape=big, ptype='numpy')]
        elif which == 'pair':
            c = rand_table(rng, 'pair', small=True)
            need = max(r[1] for r in c['rows']) + 1
            c['shape'] = None
            calls = [vary(c, sym=True), vary(c, sym=False), vary(c, sym=True), vary(c, sym=True, shape=need + 2),
                     vary(c, sym=True), vary(c, sym=True, dtype='int32')]
        elif which == 'spacing':
            c = rand_table(rng, 'spacing', small=True)
            m = c['maxd'] if c['maxd'] not in (None, 0) else 3
            m = min(m, 12)
            need = max(r[1] for r in c['rows']) + 1
            c['shape'] = None
            calls = [vary(c, maxd=m, sym=True), vary(c, maxd=m + 2, sym=True), vary(c, maxd=m, sym=True),
                     vary(c, maxd=m, sym=False), vary(c, maxd=m, sym=True, shape=need + 1),
                     vary(c, maxd=1, sym=True), vary(c, maxd=m, sym=True)]
        elif which == 'cross':
            c = rand_table(rng, 'spacing', small=True)
            m = c['maxd'] if c['maxd'] not in (None, 0) else 3
            m = min(m, 12)
            c.update(form='tensor', shape=None, maxd=m, sym=True)
            xd = c['xdtype']
            v = {'rows4': c['rows'], 'form': 'view4', 'xdtype': xd, 'shape': None}
            calls = [c, vary(v, kind='count', dim=None, dtype='int64'), vary(v, kind='pair', sym=True, dtype='int64'),
                     vary(v, kind='count', dim=0, dtype='int64'), c]
        else:
            L = rng.randint(3, 9)
            B = rng.randint(1, 3)
            n = rng.choice([2, 3, 4])
            seqs = [[rng.randrange(n) for _ in range(L)] for _ in range(B)]
            base = {'kind': 'kmers', 'n': n, 'seqs': seqs, 'k': 2, 'scores': None,
                    'xdt': rng.choice(['float32', 'int32', 'int64', 'float64']),
                    'layout': rng.choice(['contig', 'permuted'])}
            if which == 'kmers_k':
                calls = [vary(base, k=k) for k in (1, 2, 3, 2, 1, min(L, 4), 2)]
            elif which == 'kmers_scores':
                s1, s2 = rand_scores(rng, B, L), rand_scores(rng, B, L)
                calls = [base, vary(base, scores=s1), vary(base, scores=s2), base, vary(base, scores=s1),
                         vary(base, scores=s1, k=3), vary(base, scores=s1, sdt='float64')]
            else:
                n2 = n + 1 if n < 4 else n - 1
                other = vary(base, n=n2, seqs=[[c % n2 for c in s] for s in seqs])
                more = vary(base, seqs=seqs + [seqs[0][::-1]])
                calls = [base, other, base, vary(other, k=3), vary(base, k=3), more, base]
        yield {'kind': 'seq', 'calls': calls}


def generate(tier, rng):
    for inp in boundary_tables():
        yield inp
    for inp in gen_seqs(tier, rng):
        yield inp
    for inp in gen_tables(tier, rng):
        yield inp
    for inp in gen_kmers(tier, rng):
        yield inp


def search(rng, disagreeing):
    for inp in boundary_tables():
        yield inp
    for _ in range(300):
        maxd = rng.choice([1, 2, 3, 5])
        N = rng.randint(2, 5)
        sp = gen_spans(rng, N, maxd, span=10)
        rows = [[0, rng.randrange(2), s, e] for s, e in sp]
        yield {'kind': 'spacing', 'rows': rows, 'maxd': maxd, 'sym': True, 'shape': None,
               'form': 'tensor', 'dtype': 'int64', 'xdtype': 'int64'}
    for _ in range(100):
        N = rng.randint(1, 6)
        rows = [[rng.randrange(3), rng.randrange(3)] for _ in range(N)]
        yield {'kind': 'count', 'rows': rows, 'shape': None, 'dim': rng.choice([None, 0, 1]),
               'form': 'tensor', 'dtype': 'int64', 'xdtype': 'int64'}
        yield {'kind': 'pair', 'rows': rows, 'sym': True, 'shape': None, 'form': 'tensor',
               'dtype': 'int64', 'xdtype': 'int64'}
    for _ in range(100):
        L = rng.randint(1, 6)
        k = rng.randint(1, min(4, L))
        yield {'kind': 'kmers', 'n': 4, 'seqs': [[rng.randrange(4) for _ in range(L)]], 'k': k, 'scores': None}


def shrink(inp):
    if inp['kind'] == 'seq':
        calls = inp['calls']
        if len(calls) == 1:
            yield calls[0]
            return
        for c in calls:                       # one call alone
            if c.get('form') != 'view4':
                yield c
        for i in range(len(calls)):           # drop one call
            yield {'kind': 'seq', 'calls': calls[:i] + calls[i + 1:]}
        return
    if inp['kind'] == 'kmers':
        seqs = inp['seqs']
        if len(seqs) > 1:
            for i in range(len(seqs)):
                c = dict(inp)
                c['seqs'] = seqs[:i] + seqs[i + 1:]
                if inp['scores'] is not None:
                    c['scores'] = inp['scores'][:i] + inp['scores'][i + 1:]
                yield c
        L = len(seqs[0]) if seqs else 0
        if L > 1:
            for cut in (slice(0, L - 1), slice(1, L)):
                c = dict(inp)
                c['seqs'] = [s[cut] for s in seqs]
                if inp['scores'] is not None:
                    c['scores'] = [s[cut] for s in inp['scores']]
                yield c
        return
    if inp.get('form') == 'view4':
        return
    rows = inp['rows']
    if len(rows) > 1:
        half = len(rows) // 2
        if half > 1:
            yield dict(inp, rows=rows[:half])
            yield dict(inp, rows=rows[half:])
        for i in range(min(len(rows), 20)):
            yield dict(inp, rows=rows[:i] + rows[i + 1:])
    if inp.get('form') != 'tensor':
        yield dict(inp, form='tensor')
    if inp.get('shape') is not None:
        yield dict(inp, shape=None)
