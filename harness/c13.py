"""C13 - TOMTOM results are independent of threads, co-processed queries and their order.

A base = a pool of <= 6 queries of mixed lengths + a target set + parameters.  The reference table
is the full result row of every pool query run ALONE on one thread.  Every input is one further
tomtom(...) (or annotate.annotate_seqlets) call on a sub-list / permutation / duplication of the
pool, under some thread count, parallel chunk size, scratch poison constant and n_nearest; Coq
(C13/Spec.v) decides bit-identity with the reference rows and the n_nearest selection rule.

Two poison constants: the main process runs with TANGERMEME_VERIF_POISON as exported by ./check
(default 12345.0); a worker sub-process (same code, own JIT) runs with 0.25.  Under the pre-fix code
these two constants steer the stale comparison results[i,2] >= overlap in opposite directions.
"""
import atexit
import json
import math
import os
import subprocess
import sys
from fractions import Fraction

import numpy

from . import common as C
from . import c14

PID = 'C13'
IMPORTS = ['C14.Model', 'C13.Model', 'C13.Spec']
COQ_DIRS = ['C14', 'C13']
CASE_TYPE = 'case'
CHECK = 'check_case'
SHARD = 60
POISON_B = '0.25'
RULE = ('bases: pool of 4-6 queries with lengths 1-25 (at least three distinct lengths, the longest never '
        'first), 3-8 targets of lengths 1-25, PWMs continuous / on a grid / one-hot, n_score_bins 5-100, '
        'reverse complement on/off, hashing on/off; per base: every pool query alone on one thread '
        '(reference), then calls on random subsets / permutations / duplications of the pool (plus the '
        'structured ones: whole pool, reversed pool, each query after the longest one, each query twice) '
        'under thread counts 1..16, parallel chunk sizes 0-3, n_nearest None or 1..n_targets, two '
        'scratch-poison constants, and annotate_seqlets for one-hot pools and for pools of look-alike seqlets (one-hot, '
        'the same with all-zero N columns, soft encodings with the same arg-max; alone / together / reversed). non-trivial = the call\'s query '
        'list has at least three distinct lengths and its longest query is not first')
TRUSTED = ['bit-identity is decided on exact fractions of the float64 outputs (fractions.Fraction)',
           'the thread count is set through tomtom(n_jobs=...), the chunk size through numba.set_parallel_chunksize',
           'the second poison constant runs in a worker process started by the harness (same sources, own JIT)']
ASSUMPTIONS = ['PARTIAL: real numba thread scheduling and data races are outside any Gallina model; the theorems cover '
               'the scratch-reuse and ownership logic at iteration granularity, the runs cover thread counts 1..16',
               'numpy.argsort returns a sorting permutation and is a deterministic function of its input',
               'the float stage is deterministic (same inputs, same outputs) - exercised by every comparison']

_ref_cache = {}
_worker = None


# ----------------------------------------------------------------------------------------
# running the implementation

def flx(v):
    f = c14.fl(v)
    return 'nan' if f is None else f


def _rows(r, nq):
    """tomtom's tuple of tensors -> per query list of rows [[p, score, off, ovl, strand], idx]"""
    r = [t.numpy() if hasattr(t, 'numpy') else numpy.asarray(t) for t in r]
    out = []
    for qi in range(nq):
        rows = []
        for ti in range(r[0].shape[1]):
            idx = int(r[5][qi, ti]) if len(r) > 5 else ti
            rows.append([[flx(float(r[k][qi, ti])) for k in range(5)], idx])
        out.append(rows)
    return out


_OBJ = {}


def _obj(col_list, dt, form):
    """ONE Python object per (matrix, dtype, container) for the whole process: every call that uses the
    matrix gets the very same numpy array / torch tensor (stale caches keyed on identity and in-place
    modification of caller data then show up as a row that differs from the reference, which is
    computed on fresh objects)"""
    import torch
    key = json.dumps([col_list, dt, form])
    if key not in _OBJ:
        if len(_OBJ) > 1500:
            _OBJ.clear()
        a = numpy.array(col_list, dtype='float64').T.astype(dt or 'float64').copy()
        _OBJ[key] = torch.from_numpy(a) if form == 'torch' else a
    return _OBJ[key]


def call_tomtom(spec, fresh=False):
    """spec: dict(Q, T, nb, rc, ntb, threads, chunk, nn, api, + options) with Q the actual query list."""
    import numba
    import torch
    from tangermeme.tools.tomtom import tomtom
    qdt = spec.get('Qdt') or [None] * len(spec['Q'])
    tdt = spec.get('Tdt') or [None] * len(spec['T'])
    if fresh:
        _OBJ_saved = dict(_OBJ)
        _OBJ.clear()
    Qs = [_obj(q, dt, spec.get('Qform')) for q, dt in zip(spec['Q'], qdt)]
    Ts = [_obj(t, dt, spec.get('Tform')) for t, dt in zip(spec['T'], tdt)]
    if fresh:
        _OBJ.clear()
        _OBJ.update(_OBJ_saved)
    nT0 = len(Ts)
    rc = spec['rc']
    rc = {'int': int(rc), 'npbool': numpy.bool_(rc)}.get(spec.get('rc_form'), rc)
    kw = dict(n_score_bins=spec['nb'], n_target_bins=spec['ntb'], reverse_complement=rc,
              n_cache=spec.get('ncache') or 2 * spec['nb'] + 10, n_nearest=spec['nn'])
    if spec.get('nmb'):
        kw['n_median_bins'] = spec['nmb']
    if spec.get('threads'):
        kw['n_jobs'] = numpy.int64(spec['threads']) if spec.get('njobs_np') else spec['threads']
    if spec.get('bare'):          # every default: 100 bins, hashing 100, n_cache 100, reverse complement, all threads
        kw = dict(n_nearest=spec['nn']) if spec['nn'] is not None else {}
    before = numba.get_num_threads()
    try:
        numba.set_parallel_chunksize(spec.get('chunk', 0))
        if spec.get('api') == 'annotate':
            import pandas
            from tangermeme.annotate import annotate_seqlets
            ann = spec.get('ann') or {}
            lens = [int(q.shape[-1]) for q in Qs]
            qn = [numpy.asarray(q) for q in Qs]
            if ann.get('multi'):      # one example per seqlet, seqlets at different offsets, rows padded with zeros
                L = max(lens) + 7
                X = numpy.zeros((len(qn), qn[0].shape[0], L), dtype='float64')
                ex = list(range(len(qn)))
                st = [(k * 3) % (L - lens[k] + 1) for k in range(len(qn))]
                for k, q in enumerate(qn):
                    X[k, :, st[k]:st[k] + lens[k]] = q
                starts, ends = numpy.array(st), numpy.array(st) + numpy.array(lens)
            else:
                X = numpy.concatenate(qn, axis=-1)[None]
                ex = [0] * len(qn)
                ends = numpy.cumsum(lens)
                starts = ends - numpy.array(lens)
            if ann.get('int8'):
                X = X.astype('int8')
            X = torch.from_numpy(X)
            cols = {'example_idx': ex, 'start': starts, 'end': ends}
            if ann.get('extra'):      # additional columns and a non-default index must be ignored
                cols['name'] = ['s%d' % k for k in range(len(qn))]
                cols['attribution'] = [0.5 * k for k in range(len(qn))]
            seqlets = pandas.DataFrame(cols)
            if ann.get('extra'):
                seqlets.index = [100 - 3 * k for k in range(len(qn))]
            motifs = {'m%d' % i: t for i, t in enumerate(Ts)}
            kw.pop('n_nearest', None)
            nj = kw.pop('n_jobs', -1)
            idxs, pv = annotate_seqlets(X, seqlets, motifs, n_nearest=spec['nn'], n_jobs=nj, **kw)
            rows = [[[[flx(float(pv[qi, k]))] + [None] * 4, int(idxs[qi, k])] for k in range(pv.shape[1])]
                    for qi in range(len(Qs))]
        else:
            rows = _rows(tomtom(Qs, Ts, **kw), len(Qs))
    finally:
        numba.set_parallel_chunksize(0)
    restored = numba.get_num_threads() == before
    return {'rows': rows, 'threads_restored': restored, 'list_modified': len(Ts) != nT0}


def hook_state():
    from tangermeme.tools import tomtom as tt
    return {'hook': bool(getattr(tt, '_VERIF', False)), 'poison': getattr(tt, '_VERIF_POISON', None)}


def worker_main():
    """JSON-lines server: one call spec per line -> one result per line"""
    C.setup_numba_cache()
    out = sys.stdout
    sys.stdout = sys.stderr
    for line in sys.stdin:
        try:
            res = call_tomtom(json.loads(line))
            res.update(hook_state())
        except Exception as e:
            res = {'error': repr(e)}
        out.write(json.dumps(res) + '\n')
        out.flush()


def start_worker():
    global _worker
    if _worker is not None:
        return
    env = dict(os.environ)
    env['TANGERMEME_VERIF'] = '1'
    env['TANGERMEME_VERIF_POISON'] = POISON_B
    env['PYTHONPATH'] = '%s:%s' % (C.REPO, C.VERIF)
    _worker = subprocess.Popen([sys.executable, '-W', 'ignore', '-c',
                                'from harness import c13; c13.worker_main()'],
                               stdin=subprocess.PIPE, stdout=subprocess.PIPE, stderr=subprocess.DEVNULL,
                               env=env, cwd=C.VERIF, text=True)
    atexit.register(stop_worker)
    # warm-up (JIT) runs concurrently with the main process' own JIT
    _worker.stdin.write(json.dumps(dict(Q=[[[1.0, 0, 0, 0]]], T=[[[0.5, 0.5, 0, 0]], [[0, 0, 1.0, 0]]], nb=10,
                                        rc=False, ntb=None, threads=1, chunk=0, nn=None)) + '\n')
    _worker.stdin.flush()
    _worker.pending_warmup = True


def stop_worker():
    global _worker
    if _worker is not None:
        try:
            _worker.stdin.close()
            _worker.wait(timeout=10)
        except Exception:
            _worker.kill()
        _worker = None


def worker_call(spec):
    start_worker()
    if getattr(_worker, 'pending_warmup', False):
        _worker.stdout.readline()
        _worker.pending_warmup = False
    _worker.stdin.write(json.dumps(spec) + '\n')
    _worker.stdin.flush()
    line = _worker.stdout.readline()
    if not line:
        raise RuntimeError('poison worker died')
    return json.loads(line)


def base_key(inp):
    return json.dumps([inp['Q'], inp['T'], inp['nb'], inp['rc'], inp['ntb'], inp.get('Qdt'), inp.get('Tdt'), inp.get('nmb')])


def reference(inp):
    """every pool query alone, one thread, full rows; None when the base is out of scope"""
    k = base_key(inp)
    if k in _ref_cache:
        return _ref_cache[k]
    ref = None
    try:
        Qs, Ts = c14.arrays({'Q': inp['Q'], 'T': inp['T']})
        P = c14.prep(Qs, Ts, inp['rc'], inp['ntb'])
        c14.stage(P, inp['nb'], inp.get('nmb') or 1000)   # raises ZeroDivisionError on degenerate bases
        ref = []
        for qi, q in enumerate(inp['Q']):
            r = call_tomtom(dict(Q=[q], T=inp['T'], nb=inp['nb'], rc=inp['rc'], ntb=inp['ntb'],
                                 threads=1, chunk=0, nn=None, Tdt=inp.get('Tdt'), nmb=inp.get('nmb'),
                                 Qdt=[inp['Qdt'][qi]] if inp.get('Qdt') else None), fresh=True)
            ref.append(r['rows'][0])
    except ZeroDivisionError:
        ref = None
    if len(_ref_cache) > 50:
        _ref_cache.clear()
    _ref_cache[k] = ref
    return ref


def run_impl(inp):
    try:
        ref = reference(inp)
        if ref is None:
            return {'ok': False, 'why': 'degenerate base'}
        spec = dict(Q=[inp['Q'][i] for i in inp['idxs']], T=inp['T'], nb=inp['nb'], rc=inp['rc'], ntb=inp['ntb'],
                    threads=inp['threads'], chunk=inp['chunk'], nn=inp['nn'], api=inp.get('api', 'tomtom'),
                    Tdt=inp.get('Tdt'), Qdt=[inp['Qdt'][i] for i in inp['idxs']] if inp.get('Qdt') else None,
                    nmb=inp.get('nmb'), ncache=inp.get('ncache'), Qform=inp.get('Qform'), Tform=inp.get('Tform'),
                    rc_form=inp.get('rc_form'), njobs_np=inp.get('njobs_np'), bare=inp.get('bare'), ann=inp.get('ann'))
        if inp.get('poison') == 'B':
            r = worker_call(spec)
            if 'error' in r:
                return {'ok': False, 'why': 'raised ' + r['error'], 'raised': True}
        else:
            r = call_tomtom(spec)
            r.update(hook_state())
        return {'ok': True, 'ref': ref, 'rows': r['rows'], 'hook': r.get('hook'), 'poison': r.get('poison'),
                'threads_restored': r['threads_restored']}
    except Exception as e:
        return {'ok': False, 'why': 'raised %r' % (e,), 'raised': True}


# ----------------------------------------------------------------------------------------
# Coq literals

def fl_lit(p):
    if p is None:            # field not observable through this API
        return '(0, 1)'
    if p == 'nan':           # nan / inf: equal to nothing the spec accepts
        return '(7, 0)'
    return '(%s, %s)' % (('(%s)' % p[0]) if p[0].startswith('-') else p[0], p[1])


def brow_lit(fields):
    return '(mkb %s)' % ' '.join(fl_lit(f) for f in fields)


def coq_case(inp, out):
    if not out['ok']:
        # out-of-scope base: a well-formed trivial case; an in-scope call that raised: cannot satisfy the spec
        if out.get('raised'):
            return '(mkcall13 [[mkb (0,1) (0,1) (0,1) (0,1) (0,1)]] [0%nat] None true, [])'
        return '(mkcall13 [] [] None true, [])'
    ref = C.lst([C.lst([brow_lit(r[0]) for r in row]) for row in out['ref']])
    nn = 'None' if inp['nn'] is None else '(Some %d%%nat)' % inp['nn']
    full = inp.get('api', 'tomtom') != 'annotate'
    call = '(mkcall13 %s %s %s %s)' % (ref, C.natlist(inp['idxs']), nn, C.boolean(full))
    o = C.lst([C.lst(['(%s, %s)' % (brow_lit(r[0]), C.nat(r[1]) if 0 <= r[1] < 5000 else '4999%nat') for r in row])
               for row in out['rows']])
    return '(%s, %s)' % (call, o)


# ----------------------------------------------------------------------------------------
# evidence helpers

def nontrivial(inp, out):
    if not out['ok']:
        return False
    lens = [len(inp['Q'][i]) for i in inp['idxs']]
    return len(set(lens)) >= 3 and lens[0] != max(lens)


def hist_key(inp, out):
    if not out['ok']:
        return 'out-of-scope: ' + out['why'][:40]
    t = inp['threads']
    return '%s%s/threads%s/%s/poison%s%s%s%s' % (
        inp.get('api', 'tomtom'), ('/mixed-dtype' if inp.get('Qdt') else '') + ('/long-query' if inp.get('long') else '') + ('/prefix-queries' if inp.get('prefix') else '') + ('/hash-range' if inp.get('hashrange') else '')
        + ('/batch>128' if inp.get('batch') and len(inp['idxs']) > 128 else ''), '1' if t == 1 else ('2-4' if t <= 4 else ('5-8' if t <= 8 else '9-16')),
        'full' if inp['nn'] is None else 'nn', inp.get('poison', 'A'),
        '' if out.get('hook') else '/HOOK-ABSENT', '/rc' if inp['rc'] else '', '/hash' if inp['ntb'] else '')


def tags(inp, out):
    return set()


# ----------------------------------------------------------------------------------------
# generators

def gen_base(rng, onehot=False):
    rs = c14.np_rng(rng)
    k = rng.randint(4, 6)
    while True:
        lens = [rng.choice([1, 1, 2, 3, 4, 5, 6, 8, 10, 13, 17, 25]) for _ in range(k)]
        if len(set(lens)) >= 3 and lens[0] != max(lens):
            break
    alpha = rng.choice([0.05, 0.3, 1.0])
    grid = rng.choice([0, 0, 4, 10])
    if onehot:
        Q = [numpy.eye(4)[rs.randint(4, size=L)].tolist() for L in lens]
        nb = 100
    else:
        Q = [c14.pwm(rs, L, alpha, grid) for L in lens]
        nb = rng.choice([5, 8, 10, 12, 15, 20, 30, 50, 100])
        if max(lens) > 13:           # _A/_A_csum are threads x Qmax^2 x Qmax*(3*nb+10) doubles: keep them small
            nb = min(nb, 30)
    nT = rng.randint(3, 8)
    T = [c14.pwm(rs, rng.choice([1, 2, 2, 3, 4, 6, 9, 14, 25]), alpha, grid) for _ in range(nT)]
    if rng.random() < 0.4:
        T[rng.randrange(nT)] = [list(c) for c in rng.choice(Q)]
    if c14.distinct_cols(T) < 2:
        T.append(c14.pwm(rs, 2, 1.0, 0))
    rc = rng.random() < 0.5
    ntb = rng.choice([4, 10, 100, 1000]) if rng.random() < 0.45 else None     # non-injective hashing is fine for C13
    base = {'Q': Q, 'T': T, 'nb': nb, 'rc': rc, 'ntb': ntb}
    if rng.random() < 0.3:
        base['nmb'] = rng.choice([1, 7, 100, 5000])
    if not onehot and rng.random() < 0.15:          # alphabets other than 4 letters
        A = rng.choice([2, 3, 5, 20])
        base['Q'] = [c14.pwm_alpha(rs, L, A) for L in lens]
        base['T'] = [c14.pwm_alpha(rs, len(t_), A) for t_ in T]
        if A > 5:
            base['ntb'] = None
        return base
    if rng.random() < 0.2 and max(lens) <= 13:     # a base on which the call with every default is legitimate
        base.update(nb=100, rc=True, ntb=100, nmb=None, bare_ok=True)
    return base


def gen_zero_base(rng):
    """a base whose pool contains a single-column query with zero similarities (the pre-fix stale reads)"""
    z = None
    for _ in range(5):
        z = c14.gen_zero(rng)
        if z is not None:
            break
    if z is None:
        return None
    rs = c14.np_rng(rng)
    single = z['Q'][-1]
    Q = [c14.pwm(rs, 3, 0.3, 0), c14.pwm(rs, 6, 0.3, 0), single, c14.pwm(rs, 2, 0.3, 0)]
    return {'Q': Q, 'T': z['T'], 'nb': z['nb'], 'rc': False, 'ntb': None}


def gen_annot_base(rng):
    """seqlets for annotate_seqlets that are NOT strictly one-hot: a one-hot seqlet, the same seqlet with
    all-zero (N) columns where it has an A, and two soft (PWM-like) versions with the same per-column
    arg-max - equal lengths, equal decoded strings, different encodings - plus seqlets of other lengths"""
    rs = c14.np_rng(rng)
    L = rng.randint(3, 10)
    eye = numpy.eye(4)
    idx = [rng.randrange(4) for _ in range(L)]
    idx[rng.randrange(L)] = 0                                   # at least one A
    a_pos = [i for i, k in enumerate(idx) if k == 0]
    seqA = [eye[k].tolist() for k in idx]
    seqN = [list(c) for c in seqA]
    for i in rng.sample(a_pos, rng.randint(1, min(2, len(a_pos)))):
        seqN[i] = [0.0, 0.0, 0.0, 0.0]

    def soft(hi):
        out = []
        for k in idx:
            c = [(1 - hi) / 3] * 4
            c[k] = hi
            out.append(c)
        return out
    others = [eye[rs.randint(4, size=n)].tolist() for n in (rng.choice([1, 2]), L + rng.randint(2, 9))]
    Q = [others[0], seqA, seqN, soft(0.7), others[1], soft(rng.choice([0.4, 0.55, 0.85]))]
    nT = rng.randint(3, 7)
    alpha = rng.choice([0.3, 1.0])
    T = [c14.pwm(rs, rng.choice([2, 3, 4, 6, 9, 14]), alpha, 0) for _ in range(nT)]
    if rng.random() < 0.5:
        T[rng.randrange(nT)] = [list(c) for c in seqA]
    return {'Q': Q, 'T': T, 'nb': rng.choice([20, 50, 100]), 'rc': rng.random() < 0.5,
            'ntb': 100 if rng.random() < 0.3 else None}


def annot_variants(rng, base, n_random):
    """alone / together / reversed for the look-alike seqlets 1 (one-hot), 2 (with N), 3 and 5 (soft)"""
    lists = [[1, 2], [2, 1], [2], [1], [3, 1], [1, 3], [3, 5], [5, 3], [2, 3], [3, 2],
             [0, 1, 2, 3, 4, 5], [5, 4, 3, 2, 1, 0], [4, 2, 0, 1], [2, 2, 1]]
    for _ in range(n_random):
        lists.append([rng.randrange(6) for _ in range(rng.randint(2, 6))])
    nT = len(base['T'])
    for j, idxs in enumerate(lists):
        yield dict(base, kind='variant', idxs=idxs, threads=rng.choice([1, 2, 5, 16]), chunk=0,
                   nn=rng.randint(1, nT), poison='A', api='annotate',
                   ann={'multi': rng.random() < 0.4, 'extra': rng.random() < 0.5})
    for idxs in ([1, 2], [2, 1], [3, 2, 1, 5]):
        yield dict(base, kind='variant', idxs=idxs, threads=rng.choice([1, 3]), chunk=0,
                   nn=None, poison='A', api='tomtom')


def gen_dtype_base(rng):
    """query lists of mixed dtypes: int8 / int64 one-hot (what utils.one_hot_encode returns), float32 PWMs
    on the dyadic grid k/16 (so that their squares and column norms are exact in float32 as well: the
    unchanged code - numpy.concatenate promotes to the common dtype - then gives bit-identical rows whether
    the query is alone in its own dtype or promoted inside a list), float64 PWMs; targets of mixed dtypes
    (their list, hence their promoted dtype, is the same in the reference and in every variant)"""
    rs = c14.np_rng(rng)
    eye = numpy.eye(4)

    def onehot(L):
        return eye[rs.randint(4, size=L)].tolist()

    def dyadic(L):
        p = numpy.round(rs.dirichlet([0.4] * 4, size=L) * 16) / 16
        p[p.sum(1) == 0] = [0.25, 0.25, 0.25, 0.25]
        return p.tolist()
    kinds = [('int8', onehot), ('float64', lambda L: c14.pwm(rs, L, 0.4, 0)), ('float32', dyadic),
             ('int64', onehot), ('float64', lambda L: c14.pwm(rs, L, 1.0, 0))]
    rng.shuffle(kinds)
    Q, Qdt = [], []
    for dt, f in kinds:
        Q.append(f(rng.choice([3, 5, 6, 8, 9, 12])))
        Qdt.append(dt)
    nT = rng.randint(4, 7)
    T = [c14.pwm(rs, rng.choice([3, 4, 6, 9, 12]), 0.4, 0) for _ in range(nT)]
    Tdt = ['float64'] * nT
    Tdt[0] = 'float32'
    T[1] = onehot(rng.choice([4, 7]))
    Tdt[1] = 'int8'
    return {'Q': Q, 'Qdt': Qdt, 'T': T, 'Tdt': Tdt, 'nb': rng.choice([20, 50, 100]),
            'rc': rng.random() < 0.5, 'ntb': None}      # one numba signature per query dtype (no uint64 rr_inv variant)


def dtype_variants(rng, base, n_extra):
    """every ordered pair (so each dtype comes first in front of each other one), plus longer lists"""
    import itertools
    k = len(base['Q'])
    lists = [list(p) for p in itertools.permutations(range(k), 2)]
    for _ in range(n_extra):
        lists.append(rng.sample(range(k), rng.randint(3, k)))
    lists.append(list(range(k)))
    lists.append(list(range(k))[::-1])
    nT = len(base['T'])
    for idxs in lists:
        yield dict(base, kind='variant', idxs=idxs, threads=rng.choice([1, 2, 4, 16]), chunk=0,
                   nn=None if rng.random() < 0.7 else rng.randint(1, nT), poison='A', api='tomtom')


def gen_long_base(rng):
    """short queries + ONE long query (35-50 columns) under the default n_score_bins = 100 and n_cache = 100:
    call-global quantities derived from the longest query (array sizes, and whatever a wrapper might derive
    from them) must not leak into the rows of the short queries"""
    rs = c14.np_rng(rng)
    lens = [rng.choice([3, 4, 6]), rng.choice([5, 8, 9]), rng.choice([2, 7, 10]), rng.randint(35, 50)]
    Q = [c14.pwm(rs, L, rng.choice([0.3, 1.0]), 0) for L in lens]
    T = [c14.pwm(rs, rng.choice([3, 5, 8, 12]), 0.4, 0) for _ in range(rng.randint(3, 5))]
    return {'Q': Q, 'T': T, 'nb': 100, 'rc': rng.random() < 0.5, 'ntb': rng.choice([None, 100]), 'long': True}


def long_variants(rng, base):
    nT = len(base['T'])
    lists = [[0, 3], [3, 0], [1, 3], [3, 2], [0, 1, 2, 3], [3, 2, 1, 0], [2, 3, 2]]
    for j, idxs in enumerate(lists):
        yield dict(base, kind='variant', idxs=idxs, threads=1 + j % 2, chunk=0, ncache=100,
                   nn=None if j % 3 else rng.randint(1, nT), poison='A', api='tomtom')
    yield dict(base, kind='variant', idxs=[1, 3], threads=2, chunk=0, nn=None, poison='A', api='tomtom',
               bare=True) if base['rc'] and base['ntb'] == 100 else \
        dict(base, kind='variant', idxs=[1, 3], threads=2, chunk=0, nn=None, poison='A', api='tomtom', ncache=100)


def gen_prefix_base(rng):
    """a query, column-prefixes of it, a column-suffix and (by list duplication) exact duplicates: a per-thread
    'same query as last time' shortcut must compare lengths too. Pool: 0 other, 1 full (10-14 columns),
    2 full[:7], 3 full[:3], 4 other2, 5 full[-5:] (suffix, control), 6 an extension of full (mirror case)"""
    rs = c14.np_rng(rng)
    alpha, grid = rng.choice([0.3, 1.0]), rng.choice([0, 0, 4])
    L = rng.randint(10, 14)
    full = c14.pwm(rs, L, alpha, grid)
    ext = [list(c) for c in full] + c14.pwm(rs, rng.randint(2, 5), alpha, grid)
    Q = [c14.pwm(rs, rng.randint(4, 9), alpha, grid), full, [list(c) for c in full[:7]], [list(c) for c in full[:3]],
         c14.pwm(rs, rng.randint(2, 6), alpha, grid), [list(c) for c in full[-5:]], ext]
    T = [c14.pwm(rs, rng.choice([3, 5, 8, 12]), alpha, grid) for _ in range(rng.randint(3, 6))]
    if c14.distinct_cols(T) < 2:
        T.append(c14.pwm(rs, 2, 1.0, 0))
    return {'Q': Q, 'T': T, 'nb': rng.choice([10, 20, 50]), 'rc': rng.random() < 0.5,
            'ntb': 100 if grid and rng.random() < 0.5 else None, 'prefix': True}


def prefix_variants(rng, base):
    nT = len(base['T'])
    lists = [[0, 1, 2, 3, 4, 1],        # full, then its prefixes, ..., full again
             [1, 2], [1, 3], [2, 3],    # a query immediately followed by its own prefix
             [2, 1], [3, 2, 1], [1, 6], [3, 6],   # prefix first / mirror: extension after the shorter one
             [6, 1, 2, 3],              # chain of ever shorter prefixes
             [1, 4, 2], [1, 0, 3],      # another query in between
             [1, 5], [5, 1],            # suffix (control)
             [1, 1], [2, 2, 1, 1],      # exact duplicates (control)
             [0, 6, 1, 2, 3, 4, 5]]
    k = 0
    for idxs in lists:
        for threads in ((1, 2, 3, 6) if len(idxs) <= 4 else (1, 2)):
            k += 1
            yield dict(base, kind='variant', idxs=idxs, threads=threads, chunk=rng.choice([0, 0, 1]),
                       nn=None if k % 3 else rng.randint(1, nT), poison='A', api='tomtom')


def gen_hashrange_base(rng):
    """column hashing ON (n_target_bins 100 / 10 / 4); probability PWM queries 0-2 next to queries whose values lie far
    outside the targets' per-row [min, max]: 3 a count matrix (entries 0..40), 4 a shifted / scaled PWM. Which target
    columns are merged by the hashing must depend on the targets only"""
    rs = c14.np_rng(rng)
    Q = [c14.pwm(rs, rng.randint(2, 8), rng.choice([0.3, 1.0]), 0) for _ in range(3)]
    Q.append(rs.randint(0, 41, size=(rng.randint(3, 8), 4)).astype(float).tolist())
    Q.append((numpy.array(c14.pwm(rs, rng.randint(3, 7), 0.5, 0)) * rng.choice([5, 30]) - rng.choice([0, 2])).tolist())
    T = [c14.pwm(rs, rng.choice([3, 5, 8, 12]), rng.choice([0.3, 1.0]), 0) for _ in range(rng.randint(4, 7))]
    return {'Q': Q, 'T': T, 'nb': rng.choice([20, 50, 100]), 'rc': rng.random() < 0.5,
            'ntb': rng.choice([100, 100, 10, 4]), 'hashrange': True}


def hashrange_variants(rng, base):
    nT = len(base['T'])
    lists = []
    for i in range(3):
        lists += [[i, 3], [3, i], [i, 4]]
    lists += [[0, 1, 2], [0, 1, 2, 3, 4], [4, 3, 2, 1, 0], [3, 4]]
    for k, idxs in enumerate(lists):
        yield dict(base, kind='variant', idxs=idxs, threads=1 + k % 2, chunk=0,
                   nn=None if k % 4 else rng.randint(1, nT), poison='A', api='tomtom')


def gen_batch_base(rng):
    """130-200 short queries against a few targets: a call-size dependent code path (batching, sorting,
    chunking of the query list) must hand every row back to the query it belongs to"""
    rs = c14.np_rng(rng)
    n = rng.randint(130, 200)
    Q = [c14.pwm(rs, rng.randint(4, 10), 0.4, 0) for _ in range(n)]
    T = [c14.pwm(rs, rng.choice([4, 6, 9]), 0.4, 0) for _ in range(3)]
    return {'Q': Q, 'T': T, 'nb': rng.choice([10, 20]), 'rc': rng.random() < 0.5, 'ntb': None, 'batch': True}


def batch_variants(rng, base):
    n = len(base['Q'])
    perm = list(range(n))
    rng.shuffle(perm)
    for idxs, threads, nn in ((list(range(n)), 1, None), (perm, 3, None), (list(range(n)), 16, 2),
                              (perm[:129], 2, None), (list(range(50)), 4, None)):
        yield dict(base, kind='variant', idxs=idxs, threads=threads, chunk=0, nn=nn, poison='A', api='tomtom')


def variants(rng, base, n_random, threads_all):
    k = len(base['Q'])
    longest = max(range(k), key=lambda i: len(base['Q'][i]))
    nT = len(base['T'])
    lists = [list(range(k)), list(range(k))[::-1]]
    for i in range(k):
        lists.append([longest, i])
        lists.append([i, i])
        lists.append([i, longest, i])
    for _ in range(n_random):
        m = rng.randint(1, 6)
        lists.append([rng.randrange(k) for _ in range(m)])
        sub = rng.sample(range(k), rng.randint(1, k))
        lists.append(sub)
    rng.shuffle(lists)
    for j, idxs in enumerate(lists):
        threads = (j % 16) + 1 if threads_all else rng.choice([1, 2, 3, 4, 7, 8, 13, 16])
        v = dict(base, kind='variant', idxs=idxs, threads=threads, chunk=rng.choice([0, 0, 1, 2, 3]),
                 nn=None if rng.random() < 0.5 else rng.choice([1, nT, rng.randint(1, nT)]),
                 poison='B' if rng.random() < 0.35 else 'A', api='tomtom')
        # options that must not change a row: n_cache (array dimensions), container, parameter types
        r = rng.random()
        if r < 0.15:
            v['ncache'] = rng.choice([base['nb'] + 1, 4 * base['nb'], 3 * base['nb'] + 7])
        elif r < 0.25:
            v['Tform'] = 'torch'
        elif r < 0.35:
            v['Qform'] = 'torch'
            v['Tform'] = rng.choice(['torch', None])
        elif r < 0.42:
            v['rc_form'] = rng.choice(['int', 'npbool'])
        elif r < 0.5:
            v['njobs_np'] = True
        elif r < 0.62 and base.get('bare_ok') and v['poison'] == 'A':
            v['bare'] = True
            v['threads'] = None
        v.pop('bare_ok', None)
        yield v


def generate(tier, rng):
    quick = tier != 'thorough'
    start_worker()
    n_bases, n_zero, n_oh, n_random = (5, 2, 2, 5) if quick else (16, 5, 4, 20)
    for _ in range(1 if quick else 3):
        base = gen_long_base(rng)
        for v in long_variants(rng, base):
            yield v
    for _ in range(1 if quick else 4):
        base = gen_prefix_base(rng)
        for v in prefix_variants(rng, base):
            yield v
    for _ in range(1 if quick else 4):
        base = gen_hashrange_base(rng)
        for v in hashrange_variants(rng, base):
            yield v
    for _ in range(1 if quick else 3):
        base = gen_batch_base(rng)
        for v in batch_variants(rng, base):
            yield v
    for _ in range(1 if quick else 6):
        base = gen_dtype_base(rng)
        for v in dtype_variants(rng, base, 4 if quick else 12):
            yield v
    for _ in range(1 if quick else 8):
        base = gen_annot_base(rng)
        for v in annot_variants(rng, base, 2 if quick else 8):
            yield v
    for b in range(n_bases + n_zero + n_oh):
        if b < n_bases:
            base = gen_base(rng)
        elif b < n_bases + n_zero:
            base = gen_zero_base(rng)
            if base is None:
                continue
        else:
            base = gen_base(rng, onehot=True)
        for v in variants(rng, base, n_random, threads_all=not quick):
            yield v
        if b >= n_bases + n_zero:
            k = len(base['Q'])
            for _ in range(4 if quick else 8):
                idxs = [rng.randrange(k) for _ in range(rng.randint(1, 6))]
                yield dict(base, kind='variant', idxs=idxs, threads=rng.choice([1, 2, 5, 16]), chunk=0,
                           nn=rng.choice([1, len(base['T']), rng.randint(1, len(base['T']))]), poison='A', api='annotate',
                           ann={'int8': rng.random() < 0.5, 'multi': rng.random() < 0.5, 'extra': rng.random() < 0.5},
                           Tform=rng.choice([None, 'torch']))


def shrink(inp):
    n = len(inp['idxs'])
    if n > 8:                      # long query lists: halves and ends only (every candidate costs a full call)
        for cand in (inp['idxs'][:n // 2], inp['idxs'][n // 2:], inp['idxs'][:n - max(1, n // 8)], inp['idxs'][1:]):
            yield dict(inp, idxs=cand)
    elif n > 1:
        for i in range(n):
            yield dict(inp, idxs=inp['idxs'][:i] + inp['idxs'][i + 1:])
    if inp['threads'] > 1:
        yield dict(inp, threads=1)
    if inp['nn'] is not None and inp.get('api', 'tomtom') != 'annotate':   # annotate_seqlets needs n_nearest
        yield dict(inp, nn=None)
    if inp['nn'] is not None and inp['nn'] > 1:
        yield dict(inp, nn=inp['nn'] - 1)
    if inp.get('poison') == 'B':
        yield dict(inp, poison='A')
    if inp.get('chunk'):
        yield dict(inp, chunk=0)
