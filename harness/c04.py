"""C04 - DeepLIFT/SHAP completeness: correspondence with coq/C04 (model, spec, theorems).

Random sequential architectures are run through tangermeme.deep_lift_shap (raw multipliers,
hypothetical and default attributions, warnings captured).  The Coq side receives the network
(affine layers as matrices obtained by probing the torch modules with basis vectors, max-pool
windows, and either the activation function itself - exact mode - or the values recorded by
the harness's OWN forward hooks on an independent deep copy - co-simulation mode), torch's
forward values f(x), f(ref), and the implementation's floats converted exactly to rationals.
coqc then evaluates (a) the spec on the implementation's outcome and (b) the model's backward
pass (the independent rescale-rule evaluation) and compares.  C05 reuses everything here.
"""
import copy
import json
import warnings
from fractions import Fraction

import torch

from . import common as C

torch.set_num_threads(1)

PID = 'C04'
IMPORTS = ['C04.Model', 'C04.Spec']
CASE_TYPE = 'case'
CHECK = 'check_case'
SHARD = 12
RULE = ('random sequential architectures (depth 1-4 of Conv1d with stride/dilation/padding, AvgPool1d, '
        'MaxPool1d with stride below/equal/above the kernel and padding, Linear, every supported '
        'element-wise activation; Flatten+Linear head, optional final activation), alphabets 2-4, '
        'length 4-10, 1-2 examples, 1-3 references (given one-hot / mutated copies of x / dyadic '
        'backgrounds / dinucleotide_shuffle), every batch size; half exact mode (small-integer weights, '
        'piecewise-linear activations, Coq recomputes the forward pass), half co-simulation mode (float64 '
        'weights, smooth activations recorded by harness hooks); non-trivial = at least one registered '
        'non-linearity (activation or max-pool) whose two halves differ on some unit; cases with some '
        '|delta_in| in [1e-9, 1e-4] are excluded and counted (hist key "band")')
TRUSTED = ['probing of torch affine modules (Conv1d/Linear/AvgPool1d) into matrices with basis vectors; '
           'cross-checked on every case by comparing the model\'s forward value with torch\'s f(x), f(ref)',
           'co-simulation mode: torch\'s own forward values and ordinary derivatives of the activation '
           'functions, recorded by plain forward hooks of the harness on a deep copy (no tangermeme code)',
           'co-simulated cases are evaluated with division rounded to 160 significant bits (instance QcR); '
           'the theorems are about exact fields (instance QcX is used for the exact-mode cases)']
ASSUMPTIONS = ['floating-point rounding is not modelled: residuals are judged with tolerance 1e-6 relative to '
               '1 + |f(x)| + |f(ref)| + sum |m_i (x_i - ref_i)|; multipliers with 1e-9 relative to the largest entry',
               'the 1e-6 / 1e-7 switch bands are excluded ([1e-9, 1e-4]), not verified',
               'torch autograd dispatches the registered hooks as documented (exercised by every case)']
ALLOW_MAXPOOL = True

EXACT_ACTS = ['ReLU', 'ReLU', 'ReLU6', 'LeakyReLU', 'PReLU', 'Softshrink', 'RReLU']
SMOOTH_ACTS = ['ELU', 'Tanh', 'Sigmoid', 'GELU', 'SiLU', 'Softplus', 'SELU', 'CELU', 'Mish', 'LogSigmoid',
               'LeakyReLU', 'ReLU', 'Softshrink', 'ReLU6', 'PReLU', 'RReLU']


# ----------------------------------------------------------------------------------------
# architectures

def conv_len(l, k, s, p, d):
    return (l + 2 * p - d * (k - 1) - 1) // s + 1 if l + 2 * p >= d * (k - 1) + 1 else 0


def gen_arch(rng, exact, allow_maxpool, affine_only=False):
    A = rng.choice([4, 4, 4, 3, 2])
    L = rng.randint(4, 10)
    depth = rng.randint(1, 4)
    layers = []
    c, l, flat, n = A, L, False, None
    acts = EXACT_ACTS if exact else SMOOTH_ACTS
    for _ in range(depth):
        if not flat:
            kinds = ['conv', 'conv', 'avgpool', 'flatlin']
            if not affine_only:
                kinds += ['act', 'act']
                if allow_maxpool:
                    kinds += ['maxpool', 'maxpool']
        else:
            kinds = ['linear'] if affine_only else ['linear', 'act']
        for _try in range(20):
            kind = rng.choice(kinds)
            if kind == 'conv':
                k = rng.randint(1, min(3, l)); s = rng.choice([1, 1, 2]); d = rng.choice([1, 1, 2])
                p = rng.randint(0, k - 1) if rng.random() < 0.5 else 0
                lo = conv_len(l, k, s, p, d)
                co = rng.randint(1, 4)
                if lo < 1 or co * lo * c * l > 2400:
                    continue
                layers.append({'t': 'conv', 'cin': c, 'cout': co, 'k': k, 's': s, 'p': p, 'd': d,
                               'bias': rng.random() < 0.8})
                c, l = co, lo
            elif kind == 'avgpool':
                k = 2 if exact else rng.choice([2, 3])
                if k > l:
                    continue
                s = rng.randint(1, k); p = rng.randint(0, k // 2)
                lo = conv_len(l, k, s, p, 1)
                if lo < 1:
                    continue
                layers.append({'t': 'avgpool', 'k': k, 's': s, 'p': p})
                l = lo
            elif kind == 'maxpool':
                k = rng.choice([2, 3])
                if k > l:
                    continue
                s = rng.randint(1, k + 1); p = rng.randint(0, k // 2) if rng.random() < 0.4 else 0
                lo = conv_len(l, k, s, p, 1)
                if lo < 1:
                    continue
                layers.append({'t': 'maxpool', 'k': k, 's': s, 'p': p})
                l = lo
            elif kind == 'act':
                if layers and layers[-1]['t'] == 'act' and rng.random() < 0.7:
                    continue
                layers.append({'t': 'act', 'name': rng.choice(acts)})
            elif kind == 'flatlin':
                o = rng.randint(1, 6)
                layers.append({'t': 'flatten'})
                layers.append({'t': 'linear', 'in': c * l, 'out': o, 'bias': rng.random() < 0.8})
                flat, n = True, o
            elif kind == 'linear':
                o = rng.randint(1, 6)
                layers.append({'t': 'linear', 'in': n, 'out': o, 'bias': rng.random() < 0.8})
                n = o
            break
    nout = rng.randint(1, 3)
    if not flat:
        layers.append({'t': 'flatten'})
        n = c * l
    layers.append({'t': 'linear', 'in': n, 'out': nout, 'bias': rng.random() < 0.8})
    if not affine_only and rng.random() < 0.15:
        layers.append({'t': 'act', 'name': rng.choice(acts)})
    return A, L, layers, nout


def gen_input(rng, exact, allow_maxpool, affine_only=False):
    A, L, layers, nout = gen_arch(rng, exact, allow_maxpool, affine_only)
    B = rng.choice([1, 1, 2])
    ns = rng.randint(1, 3)
    return {'mode': 'exact' if exact else 'cosim', 'A': A, 'L': L, 'layers': layers, 'nout': nout,
            'target': rng.randrange(nout), 'B': B, 'ns': ns,
            'batch_size': rng.choice([1, 2, 3, B * ns, B * ns + 1, 32]),
            'refs': rng.choice(['onehot', 'mutate', 'mutate', 'mutate', 'dyadic', 'shuffle']),
            'seed': rng.randrange(10 ** 9)}


def make_act(name):
    nn = torch.nn
    if name == 'LeakyReLU':
        return nn.LeakyReLU(0.25)
    if name == 'PReLU':
        return nn.PReLU()
    if name == 'RReLU':
        return nn.RReLU(0.125, 0.375)
    if name == 'Softshrink':
        return nn.Softshrink(0.5)
    return getattr(nn, name)()


def act_coq(name):
    if name == 'ReLU':
        return 'ReLU'
    if name == 'ReLU6':
        return 'ReLU6'
    if name in ('LeakyReLU', 'PReLU', 'RReLU'):
        return '(Leaky (dy 1 2))'
    if name == 'Softshrink':
        return '(Shrink (dy 1 1))'
    raise KeyError(name)


def build(inp):
    """The torch model (float64), inputs and references of an input; all numbers are drawn from
    random.Random(inp['seed'])."""
    import random
    r = random.Random(inp['seed'])
    exact = inp['mode'] == 'exact'
    nn = torch.nn
    mods = []
    for ly in inp['layers']:
        t = ly['t']
        if t == 'conv':
            m = nn.Conv1d(ly['cin'], ly['cout'], ly['k'], stride=ly['s'], padding=ly['p'],
                          dilation=ly['d'], bias=ly['bias'])
        elif t == 'linear':
            m = nn.Linear(ly['in'], ly['out'], bias=ly['bias'])
        elif t == 'avgpool':
            m = nn.AvgPool1d(ly['k'], stride=ly['s'], padding=ly['p'])
        elif t == 'maxpool':
            m = nn.MaxPool1d(ly['k'], stride=ly['s'], padding=ly['p'])
        elif t == 'flatten':
            m = nn.Flatten()
        elif t == 'act':
            m = make_act(ly['name'])
        else:
            raise KeyError(t)
        mods.append(m)
    model = nn.Sequential(*mods).double()
    with torch.no_grad():
        for m in model:
            if isinstance(m, (nn.Conv1d, nn.Linear)):
                for prm in ([m.weight] + ([m.bias] if m.bias is not None else [])):
                    vals = [float(r.randint(-2, 2)) if exact else r.uniform(-1.0, 1.0)
                            for _ in range(prm.numel())]
                    prm.copy_(torch.tensor(vals, dtype=torch.float64).reshape(prm.shape))
    model.eval()
    A, L, B, ns = inp['A'], inp['L'], inp['B'], inp['ns']

    def onehot():
        x = torch.zeros(A, L, dtype=torch.float64)
        for p in range(L):
            x[r.randrange(A), p] = 1.0
        return x
    X = torch.stack([onehot() for _ in range(B)])
    kind = inp['refs']
    if kind == 'shuffle':
        refs = None
    else:
        rows = []
        for b in range(B):
            row = []
            for _j in range(ns):
                if kind == 'onehot':
                    ref = onehot()
                elif kind == 'mutate':
                    ref = X[b].clone()
                    for p in range(L):
                        if r.random() < 0.45:
                            ref[:, p] = 0.0
                            ref[r.randrange(A), p] = 1.0
                else:   # dyadic background frequencies, columns need not sum to one
                    ref = torch.tensor([[r.randrange(0, 5) / 4.0 for _p in range(L)] for _c in range(A)],
                                       dtype=torch.float64)
                row.append(ref)
            rows.append(torch.stack(row))
        refs = torch.stack(rows)
    return model, X, refs


_CACHE = {}


def analyse(inp):
    """Everything derived from an input: implementation outcome and the independent co-simulation."""
    key = json.dumps(inp, sort_keys=True, default=str)
    if key in _CACHE:
        return _CACHE[key]
    if len(_CACHE) > 4:
        _CACHE.clear()
    res = _analyse(inp)
    _CACHE[key] = res
    return res


def _run_dls(model, X, refs, inp, **kw):
    from tangermeme.deep_lift_shap import deep_lift_shap
    from tangermeme.ersatz import dinucleotide_shuffle
    with warnings.catch_warnings(record=True) as w:
        warnings.simplefilter('always')
        if refs is None:
            out = deep_lift_shap(model, X, target=inp['target'], batch_size=inp['batch_size'],
                                 references=dinucleotide_shuffle, n_shuffles=inp['ns'],
                                 random_state=inp['seed'] % 1000, device='cpu', **kw)
        else:
            out = deep_lift_shap(model, X, target=inp['target'], batch_size=inp['batch_size'],
                                 references=refs, device='cpu', **kw)
    warned = any(issubclass(x.category, RuntimeWarning) for x in w)
    return out, warned


def _analyse(inp):
    model, X, refs = build(inp)
    twin = copy.deepcopy(model)          # never touched by tangermeme
    B, ns, A, L = inp['B'], inp['ns'], inp['A'], inp['L']
    res = {'model': twin, 'X': X}
    # ---- implementation
    try:
        X0 = X.clone()
        if refs is None:
            (raw, used), w1 = _run_dls(model, X, None, inp, raw_outputs=True, return_references=True)
            used = used.to(torch.float64)
        else:
            raw, w1 = _run_dls(model, X, refs, inp, raw_outputs=True)
            used = refs
        hyp, w2 = _run_dls(model, X, refs, inp, hypothetical=True)
        att, w3 = _run_dls(model, X, refs, inp)
        ok = (tuple(raw.shape) == (B, ns, A, L) and tuple(hyp.shape) == (B, A, L)
              and tuple(att.shape) == (B, A, L) and tuple(used.shape) == (B, ns, A, L)
              and bool(torch.equal(X, X0)))
        finite = bool(torch.isfinite(raw).all() and torch.isfinite(hyp).all() and torch.isfinite(att).all())
        why = 'shape or input mutated' if not ok else ('non-finite value returned' if not finite else None)
        ok = ok and finite       # NaN / inf cannot satisfy any equation of the spec: reported as Err
        out = {'ok': bool(ok), 'warn': bool(w1 or w2 or w3),
               'mult': raw.double().reshape(B, ns, A * L).tolist() if ok else None,
               'hyp': hyp.double().reshape(B, A * L).tolist() if ok else None,
               'attr': att.double().reshape(B, A * L).tolist() if ok else None}
        if not ok:
            out['why'] = why
    except Exception as e:      # noqa: BLE001 - any exception is "the call raised"
        out = {'ok': False, 'warn': False, 'mult': None, 'hyp': None, 'attr': None, 'why': repr(e)[:300]}
        used = refs
    res['out'] = out
    res['refs'] = used
    if used is None:
        res['cosim'] = None
        return res
    # ---- independent co-simulation on the twin: plain forward hooks
    recs = {}

    def hook(idx):
        def f(mod, i, o):
            recs[idx] = (i[0].detach().clone(), o.detach().clone())
        return f
    handles = []
    for idx, m in enumerate(twin):
        if inp['layers'][idx]['t'] in ('act', 'maxpool'):
            handles.append(m.register_forward_hook(hook(idx)))
    per_ex = []
    with torch.no_grad():
        for b in range(B):
            batch = torch.cat([X[b:b + 1], used[b]])
            y = twin(batch)
            per_ex.append(({k: (v[0].clone(), v[1].clone()) for k, v in recs.items()}, y.detach().clone()))
    for h in handles:
        h.remove()
    # ordinary derivative of each activation at the example's input
    for b in range(B):
        rec, _y = per_ex[b]
        for idx, m in enumerate(twin):
            if inp['layers'][idx]['t'] == 'act':
                a = rec[idx][0][0:1].clone().requires_grad_(True)
                with torch.enable_grad():
                    g, = torch.autograd.grad(m(a).sum(), a)
                rec[idx] = rec[idx] + (g.detach()[0],)
    res['cosim'] = per_ex
    # shapes entering every layer
    shapes = []
    with torch.no_grad():
        h = X[0:1]
        for m in twin:
            shapes.append(tuple(h.shape[1:]))
            h = m(h)
    res['shapes'] = shapes
    # band / non-triviality
    band, nontriv = False, False
    for rec, _y in per_ex:
        for idx, v in rec.items():
            i = v[0]
            d = (i[0:1] - i[1:]).abs()
            if bool(((d >= 1e-9) & (d <= 1e-4)).any()):
                band = True
            if bool((d > 0).any()):
                nontriv = True
    res['band'] = band
    res['nontrivial'] = nontriv
    return res


def run_impl(inp):
    try:
        return analyse(inp)['out']
    except Exception as e:      # noqa: BLE001
        return {'ok': False, 'warn': False, 'mult': None, 'hyp': None, 'attr': None,
                'why': 'harness: ' + repr(e)[:300]}


# ----------------------------------------------------------------------------------------
# Coq literals

def fl(x):
    """float64 -> (dy n k) = n * 2^-k, exact."""
    fr = Fraction(float(x))
    if fr == 0:
        return 'z0'
    k = fr.denominator.bit_length() - 1
    assert fr.denominator == 1 << k
    n = fr.numerator
    return '(dy %s %d)' % ('(%d)' % n if n < 0 else str(n), k)


def vec(t):
    return C.lst([fl(v) for v in torch.as_tensor(t).reshape(-1).tolist()])


def mat(rows):
    return C.lst([C.lst([fl(v) for v in r]) for r in rows])


def probe_affine(m, shape):
    """Matrix and bias of an affine torch module acting on inputs of the given shape: the bias is
    the image of 0, column i of W the image of e_i under the module with its bias removed."""
    n = 1
    for s in shape:
        n *= s
    m0 = copy.deepcopy(m)
    if getattr(m0, 'bias', None) is not None:
        with torch.no_grad():
            m0.bias.zero_()
    with torch.no_grad():
        basis = torch.eye(n, dtype=torch.float64).reshape((n,) + tuple(shape))
        Wt = m0(basis).reshape(n, -1)            # row i = image of e_i
        b = m(torch.zeros((1,) + tuple(shape), dtype=torch.float64)).reshape(-1)
    return Wt.t().tolist(), b.tolist()


def coq_case(inp, out):
    a = analyse(inp)
    skip = bool(a.get('band'))
    exact = inp['mode'] == 'exact'
    A, L, B, ns = inp['A'], inp['L'], inp['B'], inp['ns']
    if a['refs'] is None or a.get('cosim') is None:
        # the call raised before references existed: nothing to compare against
        return '(C false [], Err, false)'
    twin, X, refs, shapes = a['model'], a['X'], a['refs'], a['shapes']
    lets, exs = [], []
    # shared affine layers / windows
    names = {}
    for idx, (ly, m) in enumerate(zip(inp['layers'], twin)):
        t = ly['t']
        if t in ('conv', 'linear', 'avgpool'):
            W, b = probe_affine(m, shapes[idx])
            lets.append('let w%d := %s in let b%d := %s in' % (idx, mat(W), idx, C.lst([fl(v) for v in b])))
            names[idx] = '(NAffine w%d b%d)' % (idx, idx)
        elif t == 'maxpool':
            c, l = shapes[idx]
            lets.append('let p%d := pool_windows %s %s %s %s %s 1%%nat in' % (
                idx, C.nat(c), C.nat(l), C.nat(ly['k']), C.nat(ly['s']), C.nat(ly['p'])))
    for b in range(B):
        rec, y = a['cosim'][b]
        pairs = []
        for j in range(ns):
            net = []
            for idx, ly in enumerate(inp['layers']):
                t = ly['t']
                if t in ('conv', 'linear', 'avgpool'):
                    net.append(names[idx])
                elif t == 'flatten':
                    continue
                elif t == 'act':
                    if exact:
                        net.append('(NActF %s)' % act_coq(ly['name']))
                    else:
                        i, o, g = rec[idx]
                        ix, ir = i[0].reshape(-1).tolist(), i[1 + j].reshape(-1).tolist()
                        ox, orr = o[0].reshape(-1).tolist(), o[1 + j].reshape(-1).tolist()
                        gg = g.reshape(-1).tolist()
                        net.append('(NActRec %s)' % C.lst(
                            ['(U %s %s %s %s %s)' % (fl(ix[u]), fl(ir[u]), fl(ox[u]), fl(orr[u]), fl(gg[u]))
                             for u in range(len(ix))]))
                elif t == 'maxpool':
                    if exact:
                        net.append('(NPool p%d)' % idx)
                    else:
                        i, _o = rec[idx]
                        net.append('(NPoolRec p%d %s %s)' % (idx, vec(i[0]), vec(i[1 + j])))
            pairs.append('(P %s %s %s %s)' % (vec(refs[b, j]), C.lst(net),
                                              fl(y[0, inp['target']]), fl(y[1 + j, inp['target']])))
        exs.append('(E %s %s %s %s %s %s)' % (C.nat(A), C.nat(L), C.nat(inp['nout']), C.nat(inp['target']),
                                              vec(X[b]), C.lst(pairs)))
    call = '(C %s %s)' % (C.boolean(not exact), C.lst(exs))
    if out['ok']:
        outs = []
        for b in range(B):
            outs.append('(Out %s %s %s)' % (C.lst([C.lst([fl(v) for v in out['mult'][b][j]]) for j in range(ns)]),
                                            C.lst([fl(v) for v in out['hyp'][b]]),
                                            C.lst([fl(v) for v in out['attr'][b]])))
        o = '(Ok (%s, %s))' % (C.lst(outs), C.boolean(out['warn']))
    else:
        o = 'Err'
    return '(%s (%s, %s, %s))' % (' '.join(lets), call, o, C.boolean(skip))


def nontrivial(inp, out):
    try:
        a = analyse(inp)
        return bool(out.get('ok')) and bool(a.get('nontrivial')) and not a.get('band')
    except Exception:       # noqa: BLE001
        return False


def arch_key(inp):
    ts = [ly['t'] for ly in inp['layers']]
    k = []
    if 'maxpool' in ts:
        over = any(ly['t'] == 'maxpool' and ly['s'] < ly['k'] for ly in inp['layers'])
        k.append('maxpool-overlap' if over else 'maxpool')
    if 'act' in ts:
        k.append('act')
    if not k:
        k.append('affine')
    return '+'.join(k)


def hist_key(inp, out):
    try:
        a = analyse(inp)
        if a.get('band'):
            return 'band-excluded'
    except Exception:       # noqa: BLE001
        pass
    return '%s/%s/%s' % (inp['mode'], arch_key(inp), 'ok' if out.get('ok') else 'raise')


def tags(inp, out):
    t = set()
    if any(ly['t'] == 'maxpool' and ly['s'] < ly['k'] for ly in inp['layers']):
        t.add('maxpool_overlap')
    if sum(1 for ly in inp['layers'] if ly['t'] == 'maxpool') >= 2:
        t.add('maxpool_stacked')
    return t


def generate(tier, rng):
    n = 300 if tier != 'thorough' else 2400
    for i in range(n):
        yield gen_input(rng, exact=(i % 2 == 0), allow_maxpool=ALLOW_MAXPOOL)


def shrink(inp):
    if inp['B'] > 1:
        yield dict(inp, B=1)
    if inp['ns'] > 1:
        yield dict(inp, ns=inp['ns'] - 1)
    if inp['batch_size'] != 32:
        yield dict(inp, batch_size=32)
    if inp['refs'] == 'shuffle':
        yield dict(inp, refs='mutate')
    # drop a shape-preserving layer (activation, or a max-pool / conv that keeps the shape)
    for i, ly in enumerate(inp['layers']):
        if ly['t'] == 'act':
            yield dict(inp, layers=inp['layers'][:i] + inp['layers'][i + 1:])
    for s in (1, 2, 3):
        yield dict(inp, seed=inp['seed'] // (10 ** s))
