"""C04 - DeepLIFT/SHAP completeness: correspondence with coq/C04 (model, spec, theorems).

Random sequential architectures are run through tangermeme.deep_lift_shap (raw multipliers,
hypothetical and default attributions, warnings captured).  The Coq side receives the network
(affine layers as matrices obtained by probing the torch modules with basis vectors, max-pool
windows, and either the activation function itself - exact mode - or the values recorded by
the harness's OWN forward hooks on an independent deep copy - co-simulation mode), torch's
forward values f(x), f(ref), and the implementation's floats converted exactly to rationals.
coqc then evaluates (a) the spec on the implementation's outcome and (b) the model's backward
pass (the independent rescale-rule evaluation) and compares.  C05 reuses everything here.
"""
import copy
import json
import warnings
from fractions import Fraction

import torch

from . import common as C

torch.set_num_threads(1)

PID = 'C04'
IMPORTS = ['C04.Model', 'C04.Spec']
CASE_TYPE = 'case'
CHECK = 'check_case'
SHARD = 12
RULE = ('random sequential architectures (depth 1-4 of Conv1d with stride/dilation/padding, AvgPool1d, '
        'MaxPool1d with stride below/equal/above the kernel, padding, dilation 1-3 and ceil_mode (its index sets are '
        'read off the torch module by probing), Linear, every supported '
        'element-wise activation; Flatten+Linear head, optional final activation), alphabets 2-4, '
        'length 4-10, 1-2 examples, 1-3 references (given one-hot / mutated copies of x / dyadic '
        'backgrounds / dinucleotide_shuffle), reference tensors with an n_shuffles argument below/equal/above their '
        'count and with 21-23 references under the default n_shuffles, every batch size; a fifth of the cases are '
        'call sequences in one freshly reloaded module (earlier calls with additional_nonlinear_ops overriding / '
        'adding rules on the same or another model, plain and raising calls on the same model object, then the '
        'checked call), a tenth register further element-wise activations with the library rule; half exact mode (small-integer weights, '
        'piecewise-linear activations, Coq recomputes the forward pass), half co-simulation mode (float64 '
        'weights, smooth activations recorded by harness hooks); non-trivial = at least one registered '
        'non-linearity (activation or max-pool) whose two halves differ on some unit; further streams (design/C04.md, '
        '"Coverage audit"): model structure (nested containers, aliases, training mode, frozen parameters, extra '
        'forward args), numpy / negative / object forms of the scalar parameters, batch_size 0, a reference '
        'function of the caller, user hooks, directed tiny-delta_out units; cases with some '
        '1e-7 <= |delta_in| <= 1e-5 (max-pool: 1e-8 .. 1e-6) are excluded and counted (hist key "band-excluded")')
TRUSTED = ['probing of torch affine modules (Conv1d/Linear/AvgPool1d) into matrices with basis vectors; '
           'cross-checked on every case by comparing the model\'s forward value with torch\'s f(x), f(ref)',
           'co-simulation mode: torch\'s own forward values and ordinary derivatives of the activation '
           'functions, recorded by plain forward hooks of the harness on a deep copy (no tangermeme code)',
           'co-simulated cases are evaluated with division rounded to 160 significant bits (instance QcR); '
           'the theorems are about exact fields (instance QcX is used for the exact-mode cases)']
ASSUMPTIONS = ['floating-point rounding is not modelled: residuals are judged with tolerance 1e-6 relative to '
               '1 + |f(x)| + |f(ref)| + sum |m_i (x_i - ref_i)|; multipliers with 1e-9 relative to the largest entry',
               'the band one decade either side of the 1e-6 / 1e-7 switches is excluded, not verified',
               'torch autograd dispatches the registered hooks as documented (exercised by every case)']
ALLOW_MAXPOOL = True

EXACT_ACTS = ['ReLU', 'ReLU', 'ReLU6', 'LeakyReLU', 'PReLU', 'Softshrink', 'RReLU']
SMOOTH_ACTS = ['ELU', 'Tanh', 'Sigmoid', 'GELU', 'SiLU', 'Softplus', 'SELU', 'CELU', 'Mish', 'LogSigmoid',
               'LeakyReLU', 'ReLU', 'Softshrink', 'ReLU6', 'PReLU', 'RReLU']


# ----------------------------------------------------------------------------------------
# architectures

def conv_len(l, k, s, p, d):
    return (l + 2 * p - d * (k - 1) - 1) // s + 1 if l + 2 * p >= d * (k - 1) + 1 else 0


def pool_len(c, l, k, s, p, d, ceil):
    """Output length of MaxPool1d for this geometry as torch computes it (0 if torch rejects it)."""
    try:
        with torch.no_grad():
            m = torch.nn.MaxPool1d(k, stride=s, padding=p, dilation=d, ceil_mode=ceil)
            y = m(torch.zeros(1, c, l, dtype=torch.float64))
            # a window that lies entirely in the padding would produce -inf
            return int(y.shape[-1]) if bool(torch.isfinite(y).all()) else 0
    except Exception:       # noqa: BLE001
        return 0


EXTRA_ACTS = ['Softsign', 'Tanhshrink', 'Hardswish', 'Hardtanh']     # element-wise, not in the default table


def gen_arch(rng, exact, allow_maxpool, affine_only=False, small=False, extra=None):
    A = rng.choice([4, 4, 4, 3, 2])
    L = rng.randint(4, 10)
    depth = rng.randint(1, 2) if small else rng.randint(1, 4)
    layers = []
    c, l, flat, n = A, L, False, None
    acts = EXACT_ACTS if exact else SMOOTH_ACTS
    if extra:
        acts = list(acts[:4]) + list(extra) * 3
    for _ in range(depth):
        if not flat:
            kinds = ['conv', 'conv', 'avgpool', 'flatlin']
            if not affine_only:
                kinds += ['act', 'act']
                if allow_maxpool:
                    kinds += ['maxpool', 'maxpool']
        else:
            kinds = ['linear'] if affine_only else ['linear', 'act']
        for _try in range(20):
            kind = rng.choice(kinds)
            if kind == 'conv':
                k = rng.randint(1, min(3, l)); s = rng.choice([1, 1, 2]); d = rng.choice([1, 1, 2])
                p = rng.randint(0, k - 1) if rng.random() < 0.5 else 0
                lo = conv_len(l, k, s, p, d)
                co = rng.randint(1, 2 if small else 4)
                if lo < 1 or co * lo * c * l > 2400:
                    continue
                layers.append({'t': 'conv', 'cin': c, 'cout': co, 'k': k, 's': s, 'p': p, 'd': d,
                               'bias': rng.random() < 0.8})
                c, l = co, lo
            elif kind == 'avgpool':
                k = 2 if exact else rng.choice([2, 3])
                if k > l:
                    continue
                s = rng.randint(1, k); p = rng.randint(0, k // 2)
                lo = conv_len(l, k, s, p, 1)
                if lo < 1:
                    continue
                layers.append({'t': 'avgpool', 'k': k, 's': s, 'p': p})
                l = lo
            elif kind == 'maxpool':
                k = rng.choice([2, 2, 3])
                d = rng.choice([1, 1, 1, 2, 2, 3])
                s = rng.randint(1, k + 2)
                p = rng.randint(0, k // 2) if rng.random() < 0.4 else 0
                ceil = rng.random() < 0.3
                lo = pool_len(c, l, k, s, p, d, ceil)
                if lo < 1:
                    continue
                layers.append({'t': 'maxpool', 'k': k, 's': s, 'p': p, 'd': d, 'ceil': ceil})
                l = lo
            elif kind == 'act':
                if layers and layers[-1]['t'] == 'act' and rng.random() < 0.7:
                    continue
                layers.append({'t': 'act', 'name': rng.choice(acts)})
            elif kind == 'flatlin':
                o = rng.randint(1, 6)
                layers.append({'t': 'flatten'})
                layers.append({'t': 'linear', 'in': c * l, 'out': o, 'bias': rng.random() < 0.8})
                flat, n = True, o
            elif kind == 'linear':
                o = rng.randint(1, 6)
                layers.append({'t': 'linear', 'in': n, 'out': o, 'bias': rng.random() < 0.8})
                n = o
            break
    nout = rng.randint(1, 3)
    if not flat:
        layers.append({'t': 'flatten'})
        n = c * l
    layers.append({'t': 'linear', 'in': n, 'out': nout, 'bias': rng.random() < 0.8})
    if not affine_only and rng.random() < 0.15:
        layers.append({'t': 'act', 'name': rng.choice(acts)})
    return A, L, layers, nout


def gen_pre(rng, layers, exact):
    """Calls made in the same process BEFORE the checked call (cross-call state must not leak):
    a call that overrides the rule of an activation type of the checked model / registers a rule
    for one of its linear layer types through additional_nonlinear_ops (on the same model object
    or on another model), a plain call on the same model object with other inputs, a call that
    raises half-way on the same model object."""
    pre = []
    acts = sorted({ly['name'] for ly in layers if ly['t'] == 'act'})
    lin = sorted({{'conv': 'Conv1d', 'linear': 'Linear', 'avgpool': 'AvgPool1d', 'maxpool': 'MaxPool1d',
                   'flatten': 'Flatten'}[ly['t']] for ly in layers if ly['t'] != 'act'})
    for _ in range(rng.randint(1, 2)):
        kind = rng.choice(['override', 'override', 'add', 'plain', 'raise', 'vary', 'vary'])
        if kind == 'override' and not acts:
            kind = 'add'
        if kind == 'override':
            pre.append({'kind': 'ops', 'type': rng.choice(acts), 'rule': rng.choice(['grad', 'zero', 'double']),
                        'same_model': rng.random() < 0.5, 'seed': rng.randrange(10 ** 6)})
        elif kind == 'add':
            pre.append({'kind': 'ops', 'type': rng.choice(lin), 'rule': rng.choice(['zero', 'double']),
                        'same_model': rng.random() < 0.5, 'seed': rng.randrange(10 ** 6)})
        elif kind == 'vary':
            pre.append({'kind': 'vary', 'seed': rng.randrange(10 ** 6),
                        'what': rng.choice(['target', 'batch_size', 'hypothetical', 'raw', 'threshold', 'n_refs'])})
        elif kind == 'plain':
            pre.append({'kind': 'plain', 'seed': rng.randrange(10 ** 6), 'batch_size': rng.choice([1, 2, 32]),
                        'hypothetical': rng.random() < 0.5, 'raw': rng.random() < 0.5})
        else:
            pre.append({'kind': 'raise', 'seed': rng.randrange(10 ** 6)})
    return pre


NEAR_KINKS = [('ReLU', 0.0), ('ReLU', 0.0), ('ReLU6', 0.0), ('ReLU6', 6.0), ('LeakyReLU', 0.0), ('PReLU', 0.0),
              ('RReLU', 0.0), ('Softshrink', 0.5), ('Softshrink', -0.5), ('SELU', 0.0), ('Hardtanh', -0.5),
              ('Hardtanh', 0.75), ('Hardswish', -3.0), ('Hardswish', 3.0)]


def gen_directed(rng, exact):
    """Flatten -> Linear -> activation -> Linear (-> activation -> Linear) with one directed hidden unit."""
    A = rng.choice([4, 4, 3, 2]); L = rng.randint(4, 9)
    h = rng.randint(2, 5); nout = rng.randint(1, 2)
    if exact:
        kind = rng.choice(['kink', 'kink', 'kink6', 'shrink'])
        name = {'kink': rng.choice(['ReLU', 'ReLU6']), 'kink6': 'ReLU6', 'shrink': 'Softshrink'}[kind]
        dr = {'kind': kind, 'unit': rng.randrange(h)}
    elif rng.random() < 0.5:
        name = rng.choice(['GELU', 'SiLU', 'Mish'])
        dr = {'kind': 'valley', 'unit': rng.randrange(h), 'act': name, 'depth': rng.choice([0.25, 0.5, 1.0, 1.5])}
    else:
        # near-coincident, not identical pre-activations on the two sides of a kink: the ordinary
        # derivative (at the example's side) is demanded, the secant slope is a different number
        name, kink = rng.choice(NEAR_KINKS)
        dr = {'kind': 'near', 'unit': rng.randrange(h), 'act': name, 'kink': kink,
              'delta': rng.choice([1e-8, 1e-9, 1e-10, 1e-12, 1e-12]), 'frac': rng.choice([0.3, 0.5, 0.7]),
              'flip': rng.random() < 0.5}
    layers = [{'t': 'flatten'}, {'t': 'linear', 'in': A * L, 'out': h, 'bias': True}, {'t': 'act', 'name': name}]
    if rng.random() < 0.4:
        h2 = rng.randint(1, 3)
        layers += [{'t': 'linear', 'in': h, 'out': h2, 'bias': True},
                   {'t': 'act', 'name': rng.choice(EXACT_ACTS if exact else SMOOTH_ACTS)}]
        h = h2
    layers.append({'t': 'linear', 'in': h, 'out': nout, 'bias': rng.random() < 0.8})
    B, ns = rng.choice([1, 2]), rng.randint(1, 3)
    inp = {'mode': 'exact' if exact else 'cosim', 'A': A, 'L': L, 'layers': layers, 'nout': nout,
           'target': rng.randrange(nout), 'B': B, 'ns': ns, 'batch_size': rng.choice([1, 2, B * ns, 32]),
           'refs': 'onehot', 'seed': rng.randrange(10 ** 9), 'directed': dr}
    used_extra = sorted({ly['name'] for ly in layers if ly['t'] == 'act' and ly['name'] in EXTRA_ACTS})
    if used_extra:
        inp['extra_ops'] = used_extra
    return inp


def gen_user_hooks(rng, layers, backward_on_nonlinear):
    """Harmless hooks the CALLER registered on modules of the model before the call: recording
    forward hooks / forward pre-hooks (mostly on the registered non-linearities) and full backward
    hooks.  A user backward hook on a registered non-linearity makes the current code skip the module
    (open finding user_backward_hook): generated only once that finding is listed."""
    nl = [i for i, ly in enumerate(layers) if ly['t'] in ('act', 'maxpool')]
    other = [i for i, ly in enumerate(layers) if ly['t'] not in ('act', 'maxpool')]
    hooks = []
    for _ in range(rng.randint(1, 2)):
        kind = rng.choice(['forward', 'forward', 'pre', 'pre', 'backward'])
        if kind == 'backward' and not backward_on_nonlinear:
            pool = other
        else:
            pool = nl if (nl and rng.random() < 0.8) else other
        if pool:
            hooks.append({'idx': rng.choice(pool), 'kind': kind})
    return hooks


BACKWARD_HOOK_TAG = 'user_backward_hook'
SHARED_TAG = 'shared_module'


def gen_input(rng, exact, allow_maxpool, affine_only=False, pid=None):
    if not affine_only and rng.random() < 0.08:
        return gen_directed(rng, exact)
    u = rng.random()
    many = u < 0.06                       # more than 20 references with n_shuffles left at its default
    extra = None
    if not exact and not affine_only and 0.06 <= u < 0.16:
        extra = rng.sample(EXTRA_ACTS, rng.randint(1, 2))    # registered through additional_nonlinear_ops
    A, L, layers, nout = gen_arch(rng, exact, allow_maxpool, affine_only, small=many, extra=extra)
    used_extra = sorted({ly['name'] for ly in layers if ly['t'] == 'act' and ly['name'] in EXTRA_ACTS})
    B = 1 if many else rng.choice([1, 1, 2])
    ns = rng.randint(21, 23) if many else rng.randint(1, 3)
    refs = rng.choice(['onehot', 'mutate', 'mutate']) if many else \
        rng.choice(['onehot', 'mutate', 'mutate', 'mutate', 'dyadic', 'shuffle', 'func'])
    inp = {'mode': 'exact' if exact else 'cosim', 'A': A, 'L': L, 'layers': layers, 'nout': nout,
           'target': rng.randrange(nout), 'B': B, 'ns': ns,
           'batch_size': rng.choice([1, 1, 2, 2, 3, 3, B * ns, B * ns, B * ns - 1, B * ns + 1, 32, 32, 0]),
           'refs': refs, 'seed': rng.randrange(10 ** 9)}
    # a reference TENSOR comes with an n_shuffles argument that is documented as ignored: smaller
    # than, equal to or larger than the number of references given (None = the default, 20)
    if refs != 'shuffle' and not many and rng.random() < 0.4:
        inp['ns_arg'] = rng.choice([1, max(1, ns - 1), ns, ns + 2])
    if used_extra:
        inp['extra_ops'] = used_extra
    if rng.random() < 0.22 or used_extra and rng.random() < 0.5:
        inp['pre'] = gen_pre(rng, layers, exact)
    known = {e.get('tag') for e in C.load_known_findings(pid or PID)}
    # ---- how the model object is put together / what state it is in
    st = {}
    acts_idx = [i for i, ly in enumerate(layers) if ly['t'] == 'act']
    if rng.random() < 0.15 and len(layers) >= 3:
        st['nest'] = rng.randint(1, len(layers) - 1)
    if rng.random() < 0.08:
        nl = [i for i, ly in enumerate(layers) if ly['t'] in ('act', 'maxpool')]
        st['alias'] = rng.choice(nl) if nl and rng.random() < 0.7 else rng.randrange(len(layers))
    if rng.random() < 0.10:
        st['train'] = True
        if acts_idx and not used_extra and rng.random() < 0.7:
            # RReLU draws random slopes in training mode: the call must switch every child to eval
            layers[rng.choice(acts_idx)]['name'] = 'RReLU'
    if rng.random() < 0.08:
        st['frozen'] = True
    if rng.random() < 0.12 and not many:
        st['args'] = rng.choice(['add_default', 'addmul', 'addmul'])
    if SHARED_TAG in known and len(acts_idx) >= 2 and not used_extra and rng.random() < 0.15:
        i, j = sorted(rng.sample(acts_idx, 2))      # open finding shared_module: generated once listed
        layers[j] = dict(layers[i])
        st['share'] = [i, j]
    if st:
        inp['struct'] = st
    # ---- forms of the scalar parameters and output modes
    o = {}
    if rng.random() < 0.3:
        o['target'] = rng.choice(['np', 'neg'])
    if rng.random() < 0.15:
        o['bs'] = 'np'
    if rng.random() < 0.1:
        o['device_obj'] = True
    if rng.random() < 0.08:
        o['verbose'] = True
    if rng.random() < 0.08:
        o['print'] = True
    if rng.random() < 0.15:
        o['wt'] = rng.choice([1e-7, 1e-5])
    if refs in ('shuffle', 'func'):
        if rng.random() < 0.3:
            o['rs'] = 'np'
        elif refs == 'func' and rng.random() < 0.4:
            o['rs'] = 'none'
        if rng.random() < 0.2:
            o['ns'] = 'np'
    elif rng.random() < 0.15:
        o['ret_refs'] = True
    if rng.random() < 0.1:
        o['raw_hyp'] = True
    if st.get('args') and rng.random() < 0.3:
        o['args_list'] = True
    if o:
        inp['opts'] = o
    if rng.random() < 0.15:
        listed = True     # finding user_backward_hook was repaired in /repo (24c0b16): always generated
        hooks = gen_user_hooks(rng, layers, listed)
        if hooks:
            inp['user_hooks'] = hooks
    return inp


def make_act(name):
    nn = torch.nn
    if name == 'LeakyReLU':
        return nn.LeakyReLU(0.25)
    if name == 'PReLU':
        return nn.PReLU()
    if name == 'RReLU':
        return nn.RReLU(0.125, 0.375)
    if name == 'Softshrink':
        return nn.Softshrink(0.5)
    if name == 'Hardtanh':
        return nn.Hardtanh(-0.5, 0.75)
    return getattr(nn, name)()


def act_coq(name):
    if name == 'ReLU':
        return 'ReLU'
    if name == 'ReLU6':
        return 'ReLU6'
    if name in ('LeakyReLU', 'PReLU', 'RReLU'):
        return '(Leaky (dy 1 2))'
    if name == 'Softshrink':
        return '(Shrink (dy 1 1))'
    raise KeyError(name)


def build(inp):
    """The torch model (float64), inputs and references of an input; all numbers are drawn from
    random.Random(inp['seed'])."""
    import random
    r = random.Random(inp['seed'])
    exact = inp['mode'] == 'exact'
    nn = torch.nn
    mods = []
    for ly in inp['layers']:
        t = ly['t']
        if t == 'conv':
            m = nn.Conv1d(ly['cin'], ly['cout'], ly['k'], stride=ly['s'], padding=ly['p'],
                          dilation=ly['d'], bias=ly['bias'])
        elif t == 'linear':
            m = nn.Linear(ly['in'], ly['out'], bias=ly['bias'])
        elif t == 'avgpool':
            m = nn.AvgPool1d(ly['k'], stride=ly['s'], padding=ly['p'])
        elif t == 'maxpool':
            m = nn.MaxPool1d(ly['k'], stride=ly['s'], padding=ly['p'], dilation=ly.get('d', 1),
                             ceil_mode=bool(ly.get('ceil', False)))
        elif t == 'flatten':
            m = nn.Flatten()
        elif t == 'act':
            m = make_act(ly['name'])
        else:
            raise KeyError(t)
        mods.append(m)
    st = inp.get('struct', {})
    if st.get('share'):                  # one activation INSTANCE applied at two places of the forward pass
        i, j = st['share']
        mods[j] = mods[i]
    if st.get('nest'):                   # nested containers
        k = st['nest']
        model = nn.Sequential(nn.Sequential(*mods[:k]), nn.Sequential(*mods[k:]))
    else:
        model = nn.Sequential(*mods)
    if st.get('alias') is not None:      # a module reachable through two parents (applied once)
        model = Alias(model, mods[st['alias']])
    if st.get('args'):                   # forward(X, a, b=None): extra per-example inputs
        model = WithArgs(model)
    model = model.double()
    with torch.no_grad():
        for m in mods:
            if isinstance(m, (nn.Conv1d, nn.Linear)):
                for prm in ([m.weight] + ([m.bias] if m.bias is not None else [])):
                    vals = [float(r.randint(-2, 2)) if exact else r.uniform(-1.0, 1.0)
                            for _ in range(prm.numel())]
                    prm.copy_(torch.tensor(vals, dtype=torch.float64).reshape(prm.shape))
    model.eval()
    A, L, B, ns = inp['A'], inp['L'], inp['B'], inp['ns']

    def onehot():
        x = torch.zeros(A, L, dtype=torch.float64)
        for p in range(L):
            x[r.randrange(A), p] = 1.0
        return x
    X = torch.stack([onehot() for _ in range(B)])
    kind = inp['refs']
    if kind in ('shuffle', 'func'):
        refs = None
    else:
        rows = []
        for b in range(B):
            row = []
            for _j in range(ns):
                if kind == 'onehot':
                    ref = onehot()
                elif kind == 'mutate':
                    ref = X[b].clone()
                    for p in range(L):
                        if r.random() < 0.45:
                            ref[:, p] = 0.0
                            ref[r.randrange(A), p] = 1.0
                else:   # dyadic background frequencies, columns need not sum to one
                    ref = torch.tensor([[r.randrange(0, 5) / 4.0 for _p in range(L)] for _c in range(A)],
                                       dtype=torch.float64)
                row.append(ref)
            rows.append(torch.stack(row))
        refs = torch.stack(rows)
    if kind == 'func':                   # a non-default reference FUNCTION of the caller
        refs = None
    if inp.get('directed') and refs is not None:
        apply_directed(mods, X, refs, inp['directed'])
    args = None
    if st.get('args'):
        nout = inp['nout']
        a = torch.tensor([[float(r.randint(-3, 3)) if exact else r.uniform(-2.0, 2.0) for _ in range(nout)]
                          for _b in range(B)], dtype=torch.float64)
        b2 = torch.tensor([[float(r.choice([-2, -1, 1, 2, 3])) if exact else r.uniform(0.5, 2.0) * r.choice([-1, 1])
                            for _ in range(nout)] for _b in range(B)], dtype=torch.float64)
        args = (a,) if st['args'] == 'add_default' else (a, b2)
    if st.get('frozen'):
        for prm in model.parameters():
            prm.requires_grad_(False)
    if st.get('train'):
        model.train()                    # deep_lift_shap must put it (and every child) into eval mode itself
    return {'model': model, 'mods': mods, 'X': X, 'refs': refs, 'args': args}


class Alias(torch.nn.Module):
    def __init__(self, seq, other):
        super().__init__()
        self.seq = seq
        self.alias = other

    def forward(self, X):
        return self.seq(X)


class WithArgs(torch.nn.Module):
    """forward has a parameter with a default value, so a dropped argument would go unnoticed by torch."""
    def __init__(self, body):
        super().__init__()
        self.body = body

    def forward(self, X, a, b=None):
        y = self.body(X) + a
        return y if b is None else y * b


def ref_function(X, n=1, random_state=None):
    """A caller-supplied reference function with dinucleotide_shuffle's signature: reference i is X
    rolled along the sequence by (state + i + 1) positions with the channels rotated by one."""
    s = 0 if random_state is None else int(random_state) % 5
    return torch.stack([torch.roll(torch.roll(X, s + i + 1, dims=-1), 1, dims=-2) for i in range(n)], dim=1)


VALLEY = {'GELU': -0.7517915246, 'SiLU': -1.2784645428, 'Mish': -1.1924519727}   # arg-min of the activation


def valley_pair(name, depth):
    """(b, a): a = argmin - depth, b > argmin with act(b) = act(a) to float64 resolution (bisection)."""
    f = make_act(name).double()

    def val(t):
        with torch.no_grad():
            return float(f(torch.tensor([t], dtype=torch.float64))[0])
    a = VALLEY[name] - depth
    fa = val(a)
    lo, hi = VALLEY[name], 0.0          # act increases from its minimum to act(0) = 0 > act(a)
    for _ in range(200):
        mid = 0.5 * (lo + hi)
        if val(mid) < fa:
            lo = mid
        else:
            hi = mid
    return hi, a


def apply_directed(mods, X, refs, dr):
    """Directed unit: hidden unit dr['unit'] of the first Linear gets, for the pair (example 0,
    reference 0), pre-activations with a tiny OUTPUT difference and a large INPUT difference:
    kink (2^-21, -1) for ReLU/ReLU6, kink6 (6 - 2^-21, 7) for ReLU6, shrink (0.5 + 2^-21, -0.25) for
    Softshrink(0.5), valley: equal heights on both sides of the minimum of GELU/SiLU/Mish.  In scope of
    the properties: their excluded band is about |delta_in| only.  All adjustments are dyadic for the
    first three kinds, so exact mode stays exact."""
    lin = next(m for m in mods if isinstance(m, torch.nn.Linear))
    x, r = X[0].reshape(-1), refs[0, 0].reshape(-1)
    cand = [i for i in range(x.numel()) if r[i] == 1.0 and x[i] == 0.0]
    if not cand or lin.bias is None:
        return
    i, u, e = cand[0], dr['unit'], 2.0 ** -21
    if dr['kind'] == 'kink':
        tx, tr = e, -1.0
    elif dr['kind'] == 'kink6':
        tx, tr = 6.0 - e, 7.0
    elif dr['kind'] == 'shrink':
        tx, tr = 0.5 + e, -0.25
    elif dr['kind'] == 'near':
        tx, tr = dr['kink'] + dr['frac'] * dr['delta'], dr['kink'] - (1.0 - dr['frac']) * dr['delta']
        if dr['flip']:
            tx, tr = tr, tx
    else:
        tx, tr = valley_pair(dr['act'], dr['depth'])
    with torch.no_grad():
        sx, sr = float(lin.weight[u] @ x), float(lin.weight[u] @ r)
        lin.weight[u, i] += (tr - tx) - (sr - sx)
        lin.bias[u] = tx - sx


_CACHE = {}


def analyse(inp):
    """Everything derived from an input: implementation outcome and the independent co-simulation."""
    key = json.dumps(inp, sort_keys=True, default=str)
    if key in _CACHE:
        return _CACHE[key]
    if len(_CACHE) > 4:
        _CACHE.clear()
    res = _analyse(inp)
    _CACHE[key] = res
    return res


def _dls():
    import tangermeme.deep_lift_shap as D
    return D


def _call_opts(inp):
    """Forms of the scalar parameters: numpy integers, negative target index, torch.device object,
    progress bar / delta printing, tighter warning threshold."""
    import numpy
    o = inp.get('opts', {})
    kw = {}
    t = inp['target']
    kw['target'] = {'np': numpy.int64(t), 'neg': t - inp['nout']}.get(o.get('target'), t)
    bs = inp['batch_size']
    kw['batch_size'] = numpy.int64(bs) if o.get('bs') == 'np' else bs
    kw['device'] = torch.device('cpu') if o.get('device_obj') else 'cpu'
    if o.get('verbose'):
        kw['verbose'] = True
    if o.get('print'):
        kw['print_convergence_deltas'] = True
    if o.get('wt') is not None:
        kw['warning_threshold'] = o['wt']
    return kw


def _run_dls(b, inp, **kw):
    import contextlib
    import io
    import numpy
    D = _dls()
    from tangermeme.ersatz import dinucleotide_shuffle
    o = inp.get('opts', {})
    kw.update(_call_opts(inp))
    if inp.get('extra_ops'):
        # the documented way to support a further element-wise activation: the library's own rule
        kw['additional_nonlinear_ops'] = {getattr(torch.nn, n): D._nonlinear for n in inp['extra_ops']}
    if b['args'] is not None:
        kw['args'] = list(b['args']) if o.get('args_list') else b['args']
    refs = b['refs']
    with warnings.catch_warnings(record=True) as w, contextlib.redirect_stdout(io.StringIO()), \
            contextlib.redirect_stderr(io.StringIO()):
        warnings.simplefilter('always')
        if refs is None:
            fn = ref_function if inp['refs'] == 'func' else dinucleotide_shuffle
            ns = numpy.int64(inp['ns']) if o.get('ns') == 'np' else inp['ns']
            rs = None if o.get('rs') == 'none' else inp['seed'] % 1000
            rs = numpy.int64(rs) if o.get('rs') == 'np' else rs
            out = D.deep_lift_shap(b['model'], b['X'], references=fn, n_shuffles=ns, random_state=rs, **kw)
        else:
            if inp.get('ns_arg') is not None:
                kw['n_shuffles'] = inp['ns_arg']       # documented as ignored for a reference tensor
            out = D.deep_lift_shap(b['model'], b['X'], references=refs, **kw)
    warned = any(issubclass(x.category, RuntimeWarning) for x in w)
    return out, warned


def _custom_rule(name):
    if name == 'grad':
        return lambda module, grad_input, grad_output: grad_input
    if name == 'zero':
        return lambda module, grad_input, grad_output: (torch.zeros_like(grad_input[0]),)
    return lambda module, grad_input, grad_output: (2.0 * grad_input[0],)


def _run_pre(step, b, inp):
    """One earlier call in the same process; its result is not judged, exceptions are swallowed."""
    import contextlib
    import io
    import random
    D = _dls()
    nn = torch.nn
    model = b['model']
    r = random.Random(step['seed'])
    A, L = inp['A'], inp['L']

    def onehot():
        x = torch.zeros(A, L, dtype=torch.float64)
        for p in range(L):
            x[r.randrange(A), p] = 1.0
        return x
    X1 = torch.stack([onehot() for _ in range(2)])
    R1 = torch.stack([torch.stack([onehot() for _ in range(2)]) for _ in range(2)])
    kw = {}
    if b['args'] is not None:
        kw['args'] = tuple(a[:1].expand(2, -1).clone() for a in b['args'])
    try:
        with warnings.catch_warnings(), contextlib.redirect_stdout(io.StringIO()), \
                contextlib.redirect_stderr(io.StringIO()):
            warnings.simplefilter('ignore')
            if step['kind'] == 'ops':
                cls = getattr(nn, step['type'])
                if step['same_model']:
                    m = model
                else:
                    kw = {}
                    if step['type'] == 'Conv1d':
                        m = nn.Sequential(nn.Conv1d(A, 2, 1), nn.Flatten(), nn.Linear(2 * L, 1)).double()
                    elif step['type'] in ('AvgPool1d', 'MaxPool1d'):
                        m = nn.Sequential(cls(1), nn.Flatten(), nn.Linear(A * L, 1)).double()
                    elif step['type'] in ('Linear', 'Flatten'):
                        m = nn.Sequential(nn.Flatten(), nn.Linear(A * L, 1)).double()
                    else:
                        m = nn.Sequential(nn.Flatten(), nn.Linear(A * L, 3), make_act(step['type']),
                                          nn.Linear(3, 1)).double()
                D.deep_lift_shap(m, X1, references=R1, device='cpu',
                                 additional_nonlinear_ops={cls: _custom_rule(step['rule'])}, **kw)
            elif step['kind'] == 'plain':
                D.deep_lift_shap(model, X1, references=R1, device='cpu', batch_size=step['batch_size'],
                                 hypothetical=step['hypothetical'], raw_outputs=step['raw'], **kw)
            elif step['kind'] == 'vary':
                # the very objects of the checked call, ONE parameter changed
                kv = dict(target=inp['target'], batch_size=inp['batch_size'])
                what = step['what']
                if what == 'target':
                    kv['target'] = (inp['target'] + 1) % inp['nout']
                elif what == 'batch_size':
                    kv['batch_size'] = inp['batch_size'] % 3 + 1
                elif what == 'hypothetical':
                    kv['hypothetical'] = True
                elif what == 'raw':
                    kv['raw_outputs'] = True
                elif what == 'threshold':
                    kv['warning_threshold'] = 0.0
                if b['args'] is not None:
                    kv['args'] = b['args']
                if b['refs'] is not None:
                    refs = b['refs'][:, :1] if what == 'n_refs' else b['refs']
                    D.deep_lift_shap(model, b['X'], references=refs, device='cpu', **kv)
                else:
                    fn = ref_function if inp['refs'] == 'func' else None
                    extra = {'references': fn} if fn else {}
                    D.deep_lift_shap(model, b['X'], n_shuffles=inp['ns'] + (1 if what == 'n_refs' else 0),
                                     random_state=inp['seed'] % 1000, device='cpu', **extra, **kv)
            else:   # a call that raises after the hooks were registered (reference length mismatch)
                D.deep_lift_shap(model, X1, references=R1[:, :, :, :max(1, L - 1)], device='cpu', **kw)
    except Exception:       # noqa: BLE001
        pass


def _analyse(inp):
    import importlib
    importlib.reload(_dls())             # every case starts from a freshly loaded module: the calls
    #                                      of one case (pre steps + checked call) share its state,
    #                                      different cases do not, so every failing case replays alone
    b = build(inp)
    model, mods, X, refs = b['model'], b['mods'], b['X'], b['refs']
    twin, tmods = copy.deepcopy((model, mods))      # never touched by tangermeme; keeps shared instances
    twin.eval()
    B, ns, A, L = inp['B'], inp['ns'], inp['A'], inp['L']
    res = {'model': twin, 'mods': tmods, 'X': X, 'args': b['args']}
    user = []                            # (module, dict name, handle, call counter)
    for hk in inp.get('user_hooks', []):
        mod, cnt = mods[hk['idx']], [0]
        if hk['kind'] == 'forward':
            h = mod.register_forward_hook(lambda m, i, o, c=cnt: c.__setitem__(0, c[0] + 1))
            user.append((mod, '_forward_hooks', h, cnt))
        elif hk['kind'] == 'pre':
            h = mod.register_forward_pre_hook(lambda m, i, c=cnt: c.__setitem__(0, c[0] + 1))
            user.append((mod, '_forward_pre_hooks', h, cnt))
        else:
            h = mod.register_full_backward_hook(lambda m, gi, go, c=cnt: c.__setitem__(0, c[0] + 1))
            user.append((mod, '_backward_hooks', h, cnt))
    for step in inp.get('pre', []):
        _run_pre(step, b, inp)
    # ---- implementation
    try:
        X0 = X.clone()
        R0 = None if refs is None else refs.clone()
        A0 = None if b['args'] is None else [a.clone() for a in b['args']]
        o = inp.get('opts', {})
        returned = None
        if refs is None or o.get('ret_refs'):
            (raw, returned), w1 = _run_dls(b, inp, raw_outputs=True, return_references=True)
            returned = returned.to(torch.float64)
            used = returned if refs is None else refs     # a given tensor is the call side, whatever came back
        else:
            raw, w1 = _run_dls(b, inp, raw_outputs=True)
            used = refs
        hyp, w2 = _run_dls(b, inp, hypothetical=True)
        att, w3 = _run_dls(b, inp)
        same = True
        if o.get('raw_hyp'):             # raw_outputs=True wins over hypothetical=True
            rh, w4 = _run_dls(b, inp, raw_outputs=True, hypothetical=True)
            same = tuple(rh.shape) == tuple(raw.shape) and bool(torch.equal(rh, raw))
            w1 = w1 or w4
        # the number of multiplier vectors per example is passed on as returned: the spec demands
        # one per given reference
        ok = (raw.dim() == 4 and tuple(raw.shape[:1] + raw.shape[2:]) == (B, A, L)
              and tuple(hyp.shape) == (B, A, L)
              and tuple(att.shape) == (B, A, L) and tuple(used.shape) == (B, ns, A, L))
        # nothing that belongs to the caller may have been modified
        sd, sd0 = model.state_dict(), twin.state_dict()
        untouched = (bool(torch.equal(X, X0)) and (refs is None or bool(torch.equal(refs, R0)))
                     and (refs is None or returned is None or (tuple(returned.shape) == tuple(refs.shape)
                                                               and bool(torch.equal(returned, refs))))
                     and (A0 is None or all(torch.equal(a, a0) for a, a0 in zip(b['args'], A0)))
                     and all(torch.equal(sd[k], sd0[k]) for k in sd0))
        if inp['refs'] == 'func':        # the references must come from the caller's function
            untouched = untouched and all(
                any(torch.equal(used[bi, j], torch.roll(torch.roll(X[bi], k_, dims=-1), 1, dims=-2))
                    for k_ in range(L)) for bi in range(B) for j in range(used.shape[1]))
        finite = bool(torch.isfinite(raw).all() and torch.isfinite(hyp).all() and torch.isfinite(att).all())
        kept = all(h.id in getattr(mod, dname) and cnt[0] > 0 for mod, dname, h, cnt in user)
        why = ('wrong shape' if not ok else 'caller data modified / references are not the given ones (tensor) or not produced by the given function' if not untouched
               else 'raw_outputs+hypothetical differs from raw_outputs' if not same
               else 'non-finite value returned' if not finite
               else None if kept else 'a hook of the caller was removed or never ran')
        ok = ok and untouched and same and finite and kept     # anything else is reported as Err
        out = {'ok': bool(ok), 'warn': bool(w1 or w2 or w3),
               'mult': raw.double().reshape(B, raw.shape[1], A * L).tolist() if ok else None,
               'hyp': hyp.double().reshape(B, A * L).tolist() if ok else None,
               'attr': att.double().reshape(B, A * L).tolist() if ok else None}
        if not ok:
            out['why'] = why
    except Exception as e:      # noqa: BLE001 - any exception is "the call raised"
        out = {'ok': False, 'warn': False, 'mult': None, 'hyp': None, 'attr': None, 'why': repr(e)[:300]}
        used = refs
    res['out'] = out
    res['refs'] = used
    if used is not None and tuple(used.shape) != (B, ns, A, L):
        used = None                      # generated references of the wrong shape: nothing to co-simulate
        res['refs'] = None
    if used is None:
        res['cosim'] = None
        return res
    # ---- independent co-simulation on the twin: plain forward hooks (a module instance that is
    # applied twice records twice; the k-th record belongs to the k-th layer that uses it)
    calls = {}

    def hook(mod, i, o):
        calls.setdefault(id(mod), []).append((i[0].detach().clone(), o.detach().clone()))
    handles, seen = [], set()
    for idx, m in enumerate(tmods):
        if inp['layers'][idx]['t'] in ('act', 'maxpool') and id(m) not in seen:
            seen.add(id(m))
            handles.append(m.register_forward_hook(hook))
    per_ex = []
    with torch.no_grad():
        for bi in range(B):
            batch = torch.cat([X[bi:bi + 1], used[bi]])
            calls.clear()
            if b['args'] is not None:
                y = twin(batch, *[a[bi:bi + 1].expand(batch.shape[0], -1) for a in b['args']])
            else:
                y = twin(batch)
            rec, k = {}, {}
            for idx, m in enumerate(tmods):
                if inp['layers'][idx]['t'] in ('act', 'maxpool'):
                    rec[idx] = calls[id(m)][k.get(id(m), 0)]
                    k[id(m)] = k.get(id(m), 0) + 1
            per_ex.append((rec, y.detach().clone()))
    for h in handles:
        h.remove()
    # ordinary derivative of each activation at the example's input
    for bi in range(B):
        rec, _y = per_ex[bi]
        for idx, m in enumerate(tmods):
            if inp['layers'][idx]['t'] == 'act':
                a = rec[idx][0][0:1].clone().requires_grad_(True)
                with torch.enable_grad():
                    g, = torch.autograd.grad(m(a).sum(), a)
                rec[idx] = rec[idx] + (g.detach()[0],)
    res['cosim'] = per_ex
    # shapes entering every layer
    shapes = []
    with torch.no_grad():
        h = X[0:1]
        for m in tmods:
            shapes.append(tuple(h.shape[1:]))
            h = m(h)
    res['shapes'] = shapes
    # band / non-triviality
    band, nontriv = False, False
    for rec, _y in per_ex:
        for idx, v in rec.items():
            i = v[0]
            d = (i[0:1] - i[1:]).abs()
            # ambiguous band one decade either side of the switch (1e-6 for _nonlinear, 1e-7 for _maxpool):
            # below it the ordinary derivative is demanded (this covers float noise of 1e-19 between
            # identical inputs), above it the secant slope
            lo, hi = (1e-8, 1e-6) if inp['layers'][idx]['t'] == 'maxpool' else (1e-7, 1e-5)
            if bool(((d >= lo) & (d <= hi)).any()):
                band = True
            if bool((d > 0).any()):
                nontriv = True
    res['band'] = band
    res['nontrivial'] = nontriv
    return res


def run_impl(inp):
    try:
        return analyse(inp)['out']
    except Exception as e:      # noqa: BLE001
        return {'ok': False, 'warn': False, 'mult': None, 'hyp': None, 'attr': None,
                'why': 'harness: ' + repr(e)[:300]}


# ----------------------------------------------------------------------------------------
# Coq literals

def fl(x):
    """float64 -> (dy n k) = n * 2^-k, exact."""
    fr = Fraction(float(x))
    if fr == 0:
        return 'z0'
    k = fr.denominator.bit_length() - 1
    assert fr.denominator == 1 << k
    n = fr.numerator
    return '(dy %s %d)' % ('(%d)' % n if n < 0 else str(n), k)


def vec(t):
    return C.lst([fl(v) for v in torch.as_tensor(t).reshape(-1).tolist()])


def mat(rows):
    return C.lst([C.lst([fl(v) for v in r]) for r in rows])


def probe_affine(m, shape):
    """Matrix and bias of an affine torch module acting on inputs of the given shape: the bias is
    the image of 0, column i of W the image of e_i under the module with its bias removed."""
    n = 1
    for s in shape:
        n *= s
    m0 = copy.deepcopy(m)
    if getattr(m0, 'bias', None) is not None:
        with torch.no_grad():
            m0.bias.zero_()
    with torch.no_grad():
        basis = torch.eye(n, dtype=torch.float64).reshape((n,) + tuple(shape))
        Wt = m0(basis).reshape(n, -1)            # row i = image of e_i
        b = m(torch.zeros((1,) + tuple(shape), dtype=torch.float64)).reshape(-1)
    return Wt.t().tolist(), b.tolist()


def probe_windows(m, c, l):
    """Index sets of a pooling module on a (c, l) input, read off the module itself: output unit j
    reads input i iff the image of the basis vector e_i is 1 at j.  Positions in increasing order."""
    n = c * l
    with torch.no_grad():
        img = m(torch.eye(n, dtype=torch.float64).reshape(n, c, l)).reshape(n, -1)
    return [[i for i in range(n) if img[i, j] == 1.0] for j in range(img.shape[1])]


def coq_case(inp, out):
    a = analyse(inp)
    skip = bool(a.get('band'))
    exact = inp['mode'] == 'exact'
    A, L, B, ns = inp['A'], inp['L'], inp['B'], inp['ns']
    if a['refs'] is None or a.get('cosim') is None:
        # the call raised before references existed: nothing to compare against
        return '(C false [], Err, false)'
    twin, X, refs, shapes = a['mods'], a['X'], a['refs'], a['shapes']
    lets, exs = [], []
    # shared affine layers / windows
    names = {}
    for idx, (ly, m) in enumerate(zip(inp['layers'], twin)):
        t = ly['t']
        if t in ('conv', 'linear', 'avgpool'):
            W, b = probe_affine(m, shapes[idx])
            lets.append('let w%d := %s in let b%d := %s in' % (idx, mat(W), idx, C.lst([fl(v) for v in b])))
            names[idx] = '(NAffine w%d b%d)' % (idx, idx)
        elif t == 'maxpool':
            c, l = shapes[idx]
            lets.append('let p%d := %s in' % (idx, C.lst([C.natlist(w) for w in probe_windows(m, c, l)])))
    for b in range(B):
        rec, y = a['cosim'][b]
        pairs = []
        for j in range(ns):
            net = []
            for idx, ly in enumerate(inp['layers']):
                t = ly['t']
                if t in ('conv', 'linear', 'avgpool'):
                    net.append(names[idx])
                elif t == 'flatten':
                    continue
                elif t == 'act':
                    if exact:
                        net.append('(NActF %s)' % act_coq(ly['name']))
                    else:
                        i, o, g = rec[idx]
                        ix, ir = i[0].reshape(-1).tolist(), i[1 + j].reshape(-1).tolist()
                        ox, orr = o[0].reshape(-1).tolist(), o[1 + j].reshape(-1).tolist()
                        gg = g.reshape(-1).tolist()
                        net.append('(NActRec %s)' % C.lst(
                            ['(U %s %s %s %s %s)' % (fl(ix[u]), fl(ir[u]), fl(ox[u]), fl(orr[u]), fl(gg[u]))
                             for u in range(len(ix))]))
                elif t == 'maxpool':
                    if exact:
                        net.append('(NPool p%d)' % idx)
                    else:
                        i, _o = rec[idx]
                        net.append('(NPoolRec p%d %s %s)' % (idx, vec(i[0]), vec(i[1 + j])))
            if a.get('args') is not None:
                # forward(X, a, b): y = body(X) + a, then * b - per example, affine on the outputs
                n_o = inp['nout']
                eye = [[1.0 if r_ == c_ else 0.0 for c_ in range(n_o)] for r_ in range(n_o)]
                net.append('(NAffine %s %s)' % (mat(eye), vec(a['args'][0][b])))
                if len(a['args']) > 1:
                    sc = a['args'][1][b].tolist()
                    net.append('(NAffine %s %s)' % (mat([[sc[r_] if r_ == c_ else 0.0 for c_ in range(n_o)]
                                                         for r_ in range(n_o)]), vec([0.0] * n_o)))
            pairs.append('(P %s %s %s %s)' % (vec(refs[b, j]), C.lst(net),
                                              fl(y[0, inp['target']]), fl(y[1 + j, inp['target']])))
        exs.append('(E %s %s %s %s %s %s)' % (C.nat(A), C.nat(L), C.nat(inp['nout']), C.nat(inp['target']),
                                              vec(X[b]), C.lst(pairs)))
    call = '(C %s %s)' % (C.boolean(not exact), C.lst(exs))
    if out['ok']:
        outs = []
        for b in range(B):
            outs.append('(Out %s %s %s)' % (C.lst([C.lst([fl(v) for v in mv]) for mv in out['mult'][b]]),
                                            C.lst([fl(v) for v in out['hyp'][b]]),
                                            C.lst([fl(v) for v in out['attr'][b]])))
        o = '(Ok (%s, %s))' % (C.lst(outs), C.boolean(out['warn']))
    else:
        o = 'Err'
    return '(%s (%s, %s, %s))' % (' '.join(lets), call, o, C.boolean(skip))


def nontrivial(inp, out):
    try:
        a = analyse(inp)
        return bool(out.get('ok')) and bool(a.get('nontrivial')) and not a.get('band')
    except Exception:       # noqa: BLE001
        return False


def arch_key(inp):
    ts = [ly['t'] for ly in inp['layers']]
    k = []
    if 'maxpool' in ts:
        over = any(ly['t'] == 'maxpool' and ly['s'] < ly['k'] for ly in inp['layers'])
        k.append('maxpool-overlap' if over else 'maxpool')
    if 'act' in ts:
        k.append('act')
    if not k:
        k.append('affine')
    if any(ly['t'] == 'maxpool' and (ly.get('d', 1) > 1 or ly.get('ceil')) for ly in inp['layers']):
        k.append('dil/ceil')
    if inp.get('pre'):
        k.append('pre')
    if inp.get('ns_arg') is not None:
        k.append('nsarg')
    if inp['ns'] > 20:
        k.append('many')
    if inp.get('extra_ops'):
        k.append('extra')
    if inp.get('user_hooks'):
        k.append('hooks')
    for key in sorted(inp.get('struct', {})):
        k.append(key)
    if inp.get('opts'):
        k.append('opts')
    if inp['refs'] == 'func':
        k.append('reffn')
    if inp.get('directed'):
        k.append('directed-' + inp['directed']['kind'])
    return '+'.join(k)


def hist_key(inp, out):
    try:
        a = analyse(inp)
        if a.get('band'):
            return 'band-excluded'
    except Exception:       # noqa: BLE001
        pass
    return '%s/%s/%s' % (inp['mode'], arch_key(inp), 'ok' if out.get('ok') else 'raise')


def hook_tags(inp):
    if inp.get('struct', {}).get('share'):
        return {SHARED_TAG}
    if any(hk['kind'] == 'backward' and inp['layers'][hk['idx']]['t'] in ('act', 'maxpool')
           for hk in inp.get('user_hooks', [])):
        return {BACKWARD_HOOK_TAG}
    return set()


def tags(inp, out):
    t = set()
    if any(ly['t'] == 'maxpool' and ly['s'] < ly['k'] for ly in inp['layers']):
        t.add('maxpool_overlap')
    if sum(1 for ly in inp['layers'] if ly['t'] == 'maxpool') >= 2:
        t.add('maxpool_stacked')
    t |= hook_tags(inp)
    return t


def generate(tier, rng):
    n = 260 if tier != 'thorough' else 2000
    for i in range(n):
        yield gen_input(rng, exact=(i % 2 == 0), allow_maxpool=ALLOW_MAXPOOL)


def shrink(inp):
    for field in ('struct', 'opts'):
        for key in sorted(inp.get(field, {})):
            if key == 'share':
                continue
            c = dict(inp)
            c[field] = {k: v for k, v in inp[field].items() if k != key}
            if not c[field]:
                del c[field]
            yield c
    if inp.get('user_hooks'):
        for i in range(len(inp['user_hooks'])):
            rest = inp['user_hooks'][:i] + inp['user_hooks'][i + 1:]
            c = dict(inp)
            if rest:
                c['user_hooks'] = rest
            else:
                del c['user_hooks']
            yield c
    if inp.get('pre'):
        for i in range(len(inp['pre'])):
            rest = inp['pre'][:i] + inp['pre'][i + 1:]
            c = dict(inp)
            if rest:
                c['pre'] = rest
            else:
                del c['pre']
            yield c
    if inp.get('ns_arg') is not None:
        c = dict(inp)
        del c['ns_arg']
        yield c
    if inp['B'] > 1:
        yield dict(inp, B=1)
    if inp['ns'] > 1:
        yield dict(inp, ns=inp['ns'] - 1)
    if inp['batch_size'] != 32:
        yield dict(inp, batch_size=32)
    if inp['refs'] in ('shuffle', 'func'):
        yield dict(inp, refs='mutate')
    # drop a shape-preserving layer (activation, or a max-pool / conv that keeps the shape)
    if not inp.get('user_hooks') and not inp.get('directed') and not inp.get('struct'):
        for i, ly in enumerate(inp['layers']):
            if ly['t'] == 'act':
                yield dict(inp, layers=inp['layers'][:i] + inp['layers'][i + 1:])
    for s in (1, 2, 3):
        yield dict(inp, seed=inp['seed'] // (10 ** s))
