"""C17 - match.extract_matching_loci: correspondence with coq/C17 (model + spec).

An input is one call, or {'seq': [call, ...]}: calls made one after the other in one process on
the same file paths.  Streams: random calls; calls through joblib workers (n_jobs 2-4, -1; half
of them order-sensitive designs); boundary values; argument forms; sequences.

An input describes a synthetic genome generatively (blocks with a G+C level, an N rate, a
case), an optional piecewise-constant integer signal, the input loci and the call's
parameters.  run_impl writes the FASTA / bigwig under /tmp and calls the real function (and
once more with n_jobs=1).  coq_case measures, independently of /repo, the per-tile and
per-locus attributes on the generated strings (G+C count, N count, signal sum, GC bin with
the code's float expression) and replays numpy's RandomState.shuffle stream to obtain the
permutation applied to every GC bin; coqc then evaluates model, spec and the consistency
of those attributes with exact rational arithmetic.
"""
import json
import os
import random
import shutil
from fractions import Fraction

import numpy

from . import common as C

PID = 'C17'
IMPORTS = ['C17.Model', 'C17.Spec']
CASE_TYPE = '(list case)'
CHECK = 'check_cases'
SHARD = 30
RULE = ('synthetic genomes of 1-4 chromosomes made of blocks with graded G+C level (0-100%, incl. pure '
        'G/C and pure A/T), N stretches and sprinkled N, some lower case; 5-200 input loci concentrated on '
        'a few blocks (some narrower/wider than the window, tile-aligned, hanging over a chromosome end); '
        'in_window 50-500, out_window <=/>= in_window, gc_bin_width in {0.01..0.1 incl. 0.06, 0.08}, '
        'max_n_perc in {0..0.5 incl. values hit exactly by k/width}, with/without bigwig (integer signal, '
        'uncovered stretches, signal_beta 1/4..2), chroms None/explicit, n_jobs 1-4, integer seeds; '
        'loci as DataFrame / DataFrame with extra columns, permuted columns, non-default index and int32 / BED '
        'file path; chroms as list / tuple / ndarray; seed as int / numpy.int64 / RandomState; numpy scalar '
        'parameter types; verbose on/off; n_jobs -1; boundary stream (exact half-bin GC counts, signal equal to '
        'the threshold, 0/1/200 loci, zero-width loci, chromosome shorter than the window, out_window 1, bigwig '
        'lacking a chromosome); multi-call sequences in one process on the same file paths with one thing '
        'changed per step; non-trivial = accepted call in which some GC bin has more usable input loci than '
        'eligible background tiles (the spill loops run)')
TRUSTED = ['the harness measures G+C / N counts and signal sums on the strings it generated and computes the '
           'GC bin of a count with the same float64 expression as the code; Coq checks each bin against exact '
           'rational binning up to 1e-9 and recomputes validity, regions, thresholds and filters exactly',
           'numpy RandomState.shuffle is replayed on index lists of the per-bin lengths computed by the harness; '
           'Coq checks each replayed list is a permutation of the spec-side eligible count of its bin',
           'pyfaidx / pyBigWig return the bytes / values of the files written by the harness (not verified)']
ASSUMPTIONS = ['joblib Parallel returns results in task order (modelled as map over chunks; exercised by running '
               'every case with n_jobs=k and n_jobs=1)',
               'float comparisons  count/width <= max_n_perc  and  sum <= threshold  agree with the exact rational '
               'comparison; inputs where the float mirror disagrees are excluded and counted (hist key excluded-float)']

NAMES = ['cA', 'cB', 'cC', 'cD', 'cE', 'cF']
TMP = '/tmp/c17_run_%d' % os.getpid()


# ----------------------------------------------------------------------------------------
# genome / signal expansion (deterministic in the input)

def expand_seq(blocks, seed):
    """block = [length, gc%, n%, lower] (random composition) or [length, gc%, n%, lower, unit]
    (unit > 0: every chunk of `unit` bases holds exactly `gc` G/C letters, no N)"""
    out = []
    for bi, blk in enumerate(blocks):
        length, gc, nperc, lower = blk[:4]
        unit = blk[4] if len(blk) > 4 else 0
        rnd = random.Random(seed * 7919 + bi)
        s = []
        if unit:
            pos = 0
            while pos < length:
                u = min(unit, length - pos)
                g = min(u, gc)                    # exact blocks: gc is the G+C count per unit
                chunk = [rnd.choice('GC') for _ in range(g)] + [rnd.choice('AT') for _ in range(u - g)]
                rnd.shuffle(chunk)
                s.extend(chunk)
                pos += u
        else:
            for _ in range(length):
                if nperc and rnd.randrange(100) < nperc:
                    s.append('N')
                elif rnd.randrange(100) < gc:
                    s.append(rnd.choice('GC'))
                else:
                    s.append(rnd.choice('AT'))
        s = ''.join(s)
        out.append(s.lower() if lower else s)
    return ''.join(out)


def expand_signal(segs, length):
    """segs: [[len, value|None], ...] -> float array of the chromosome length (nan = uncovered)"""
    v = numpy.full(length, numpy.nan)
    pos = 0
    for ln, val in segs:
        if pos >= length:
            break
        end = min(length, pos + ln)
        if val is not None:
            v[pos:end] = val
        pos = end
    return v


def materialise(inp):
    seqs = [expand_seq(c['blocks'], c['seed']) for c in inp['genome']]
    sigs = None
    if inp['bigwig']:
        sigs = [expand_signal(c['signal'] if in_bw(c) else [], len(s)) for c, s in zip(inp['genome'], seqs)]
    return seqs, sigs


def in_bw(c):
    return c.get('in_bw', True)


def write_files(inp, seqs, d):
    """FASTA always; the bigwig whenever the genome carries a signal description"""
    os.makedirs(d, exist_ok=True)
    fa = os.path.join(d, 'g.fa')
    for f in (fa, fa + '.fai', os.path.join(d, 's.bw')):
        if os.path.exists(f):
            os.remove(f)
    with open(fa, 'w') as f:
        for name, s in zip(NAMES, seqs):
            f.write('>%s\n' % name)
            for i in range(0, len(s), 60):
                f.write(s[i:i + 60] + '\n')
    bw = None
    if any(c['signal'] for c in inp['genome']):
        import pyBigWig
        bw = os.path.join(d, 's.bw')
        h = pyBigWig.open(bw, 'w')
        h.addHeader([(name, len(s)) for name, s, c in zip(NAMES, seqs, inp['genome']) if in_bw(c)])
        for name, c, sq in zip(NAMES, inp['genome'], seqs):
            if not in_bw(c):
                continue
            L = len(sq)
            pos = 0
            st, en, va = [], [], []
            for ln, val in c['signal']:
                if pos >= L:
                    break
                end = min(L, pos + ln)
                if val is not None and end > pos:
                    st.append(pos); en.append(end); va.append(float(val))
                pos = end
            if st:
                h.addEntries([name] * len(st), st, ends=en, values=va)
        h.close()
    return fa, bw


# ----------------------------------------------------------------------------------------
# implementation

_counter = [0]


def calls_of(inp):
    return inp['seq'] if 'seq' in inp else [inp]


def build_args(inp, fa, bw, d, n_jobs, verbose):
    """the arguments in the forms the input asks for; returns (loci, kwargs, snapshot of caller data)"""
    import pandas
    form = inp.get('loci_form', 'df')
    df = pandas.DataFrame({'chrom': [NAMES[c] for c, _, _ in inp['loci']],
                           'start': [s for _, s, _ in inp['loci']],
                           'end': [e for _, _, e in inp['loci']]})
    if len(inp['loci']) == 0:
        df = df.astype({'chrom': object, 'start': 'int64', 'end': 'int64'})
    if form == 'bed':
        path = os.path.join(d, 'loci.bed')
        df2 = df.copy()
        df2['name'] = ['p%d' % i for i in range(len(df2))]
        df2.to_csv(path, sep='\t', header=False, index=False)
        loci = path
    elif form == 'df_extra':
        loci = df.copy()
        loci['score'] = [float(i % 7) for i in range(len(loci))]
        loci['name'] = ['p%d' % i for i in range(len(loci))]
        loci = loci[['name', 'end', 'chrom', 'score', 'start']]
        loci.index = [3 * ((7 * i + 5) % max(1, len(loci))) + 2 for i in range(len(loci))]
        loci = loci.astype({'start': 'int32', 'end': 'int32'})
    else:
        loci = df
    chroms = None
    if inp['chroms'] is not None:
        chroms = [NAMES[c] for c in inp['chroms']]
        cf = inp.get('chroms_form', 'list')
        if cf == 'tuple':
            chroms = tuple(chroms)
        elif cf == 'ndarray':
            chroms = numpy.array(chroms)
    npt = inp.get('np_types', False)
    fl = (lambda x: numpy.float64(x)) if npt else (lambda x: x)
    it = (lambda x: numpy.int64(x)) if npt else (lambda x: x)
    sf = inp.get('seed_form', 'int')
    seed = inp['seed']
    if sf == 'np_int64':
        seed = numpy.int64(seed)
    elif sf == 'RandomState':
        seed = numpy.random.RandomState(seed)
    if inp['max_n'][0] == 0 and inp.get('maxn_int'):
        maxn = 0                                   # a Python int where a float is usual
    else:
        maxn = fl(inp['max_n'][0] / inp['max_n'][1])
    kw = dict(in_window=it(inp['in_window']), out_window=it(inp['out_window']),
              max_n_perc=maxn,
              gc_bin_width=fl(inp['bw'][0] / inp['bw'][1]),
              chroms=chroms, random_state=seed, n_jobs=n_jobs, verbose=verbose)
    if inp['bigwig']:
        kw['bigwig'] = bw
        kw['signal_beta'] = fl(inp['beta'][0] / inp['beta'][1])
    snap = (loci.copy(deep=True) if not isinstance(loci, str) else None,
            None if chroms is None else (list(chroms), type(chroms)))
    return loci, kw, snap


def unchanged(loci, kw, snap):
    l0, c0 = snap
    ok = True
    if l0 is not None:
        ok = ok and list(loci.columns) == list(l0.columns) and list(loci.index) == list(l0.index) \
            and list(loci.dtypes) == list(l0.dtypes) and loci.equals(l0)
    if c0 is not None:
        ok = ok and type(kw['chroms']) is c0[1] and list(kw['chroms']) == c0[0]
    return bool(ok)


def call_impl(inp, fa, bw, d, n_jobs, verbose=False):
    import contextlib
    import io
    from tangermeme.match import extract_matching_loci
    loci, kw, snap = build_args(inp, fa, bw, d, n_jobs, verbose)
    if verbose:
        with contextlib.redirect_stdout(io.StringIO()), contextlib.redirect_stderr(io.StringIO()):
            r = extract_matching_loci(loci, fa, **kw)
    else:
        r = extract_matching_loci(loci, fa, **kw)
    rows = [[NAMES.index(str(c)), int(s), int(e)] for c, s, e in zip(r['chrom'], r['start'], r['end'])]
    return rows, unchanged(loci, kw, snap)


def run_one(inp, fa, bw, d):
    verbose = bool(inp.get('verbose'))
    note = None
    unch = True
    try:
        rows, unch = call_impl(inp, fa, bw, d, inp['n_jobs'], verbose)
        ok = True
    except Exception as e:
        rows, ok = None, False
        err = '%s: %s' % (type(e).__name__, e)
        if verbose:
            # the diagnostics (ks_2samp / max of the matched signal) fail on an empty result; verbose
            # is outside the property's quantifier: fall back to the quiet call when that is the cause
            try:
                rows2, unch2 = call_impl(inp, fa, bw, d, inp['n_jobs'], False)
                if rows2 == []:
                    rows, ok, unch, note = rows2, True, unch2, 'verbose-diagnostics-raise-on-empty'
            except Exception:
                pass
    same = True
    if inp['n_jobs'] != 1:
        try:
            rows1, _ = call_impl(inp, fa, bw, d, 1, False)
            same = ok and rows1 == rows
        except Exception:
            same = not ok
    out = {'ok': ok, 'rows': rows, 'same': same, 'unchanged': unch}
    if not ok:
        out['error'] = err[:300]
    if note:
        out['note'] = note
    return out


def run_impl(inp):
    if inp.get('dummy'):
        return {'outs': [{'ok': True, 'rows': [], 'same': True, 'unchanged': True}]}
    _counter[0] += 1
    d = os.path.join(TMP, 'case%d' % _counter[0])
    outs = []
    try:
        on_disk = None
        fa = bw = None
        for call in calls_of(inp):        # consecutive calls of a sequence share the file paths
            key = json.dumps(call['genome'], sort_keys=True)
            if key != on_disk:
                seqs, _ = materialise(call)
                fa, bw = write_files(call, seqs, d)
                on_disk = key
            outs.append(run_one(call, fa, bw, d))
        return {'outs': outs}
    finally:
        shutil.rmtree(d, ignore_errors=True)
        try:
            os.rmdir(TMP)
        except OSError:
            pass


# ----------------------------------------------------------------------------------------
# independent measurement of the attributes the model needs

def float_bins(counts, w, bwf):
    """the code's expression on exact count / width"""
    arr = numpy.fromiter((c / w for c in counts), dtype=float, count=len(counts))
    return ((arr + bwf / 2.) // bwf).astype(int).tolist()


_memo = {}


def measure(inp):
    key = id(inp)
    if key in _memo and _memo[key][0] is inp:
        return _memo[key][1]
    m = _measure(inp)
    if len(_memo) > 4000:
        _memo.clear()
    _memo[key] = (inp, m)
    return m


def _measure(inp):
    seqs, sigs = materialise(inp)
    seqs = [s.upper() for s in seqs]
    has_sig = [in_bw(c) for c in inp['genome']]
    w, ow = inp['in_window'], inp['out_window']
    p, q = inp['max_n']
    bp, bq = inp['bw']
    bwf = bp / bq
    maxnf = p / q
    amb = []
    nb_exact = (2 * bq + bp) // (2 * bp) + 1
    nb_float = int((1. + bwf / 2.) // bwf) + 1
    if nb_exact != nb_float:
        amb.append('nbins')
    lf, rf = (w - ow) // 2, (w - ow + 1) // 2
    tiles = []
    for ci, s in enumerate(seqs):
        nt = len(s) // w
        gcs = [s[t * w:(t + 1) * w].count('G') + s[t * w:(t + 1) * w].count('C') for t in range(nt)]
        ns = [s[t * w:(t + 1) * w].count('N') for t in range(nt)]
        bins = float_bins(gcs, w, bwf)
        if sigs is not None and ow <= w:
            v = numpy.nan_to_num(sigs[ci], nan=0.0)
            ss = [int(round(float(v[t * w + lf:(t + 1) * w - rf].sum()))) for t in range(nt)]
        else:
            ss = [0] * nt
        tiles.append(list(zip(gcs, ns, ss, bins)))
    loci = []
    W = max(w, ow)
    for (c, s, e) in inp['loci']:
        mid = s + (e - s) // 2
        vs, ve = mid - W // 2, mid + (W + 1) // 2
        valid = vs >= 0 and ve <= len(seqs[c])
        rec = {'valid': valid, 'rs': 0, 're': 0, 'gc': 0, 'n': 0, 'bin': 0, 'ss': 0, 'se': 0, 'sig': 0}
        if valid:
            rs, re_ = mid - w // 2, mid + (w + 1) // 2
            sub = seqs[c][rs:re_]
            rec.update(rs=rs, re=re_, gc=sub.count('G') + sub.count('C'), n=sub.count('N'))
            rec['bin'] = float_bins([rec['gc']], w, bwf)[0]
            s0, s1 = mid - ow // 2, mid + (ow + 1) // 2
            rec.update(ss=s0, se=s1)
            if sigs is not None:
                v = numpy.nan_to_num(sigs[c], nan=0.0)
                rec['sig'] = int(round(float(v[s0:s1].sum())))
        loci.append(rec)
    # float N comparisons vs exact
    for c in set([t[1] for ts in tiles for t in ts] + [l['n'] for l in loci if l['valid']]):
        if (c / w <= maxnf) != (c * q <= p * w):
            amb.append('nfrac')
            break
    # threshold (times 100), exact; loci on a chromosome without signal count as nan
    thr100 = None
    if inp['bigwig']:
        betp, betq = inp['beta']
        vals = sorted(l['sig'] for l, (c, _, _) in zip(loci, inp['loci']) if l['valid'] and has_sig[c])
        if vals:
            mlen = len(vals) - 1
            lo, g = mlen // 100, mlen % 100
            thr100 = 100 * vals[lo] + (vals[min(lo + 1, mlen)] - vals[lo]) * g
            tf = numpy.nanquantile(numpy.array(vals, dtype=float), 0.01).item() * (betp / betq)
            for ts in tiles:
                for t in ts:
                    fl = bool(numpy.array([t[2]], dtype=numpy.float32) <= tf)
                    if fl != (t[2] * 100 * betq <= thr100 * betp):
                        amb.append('threshold')
                        break

    def sig_ok(c, t):
        if not inp['bigwig']:
            return True
        if thr100 is None or not has_sig[c]:
            return False
        return t[2] * 100 * inp['beta'][1] <= thr100 * inp['beta'][0]

    if inp['chroms'] is None:
        chroms = sorted(set(c for c, _, _ in inp['loci']))
    else:
        chroms = list(inp['chroms'])
    masks = {c: set() for c in chroms}
    for (c, s, e) in inp['loci']:
        if c in masks:
            masks[c].update(range(s // w, e // w + 1))
    elig = [[] for _ in range(nb_exact + 2)]
    for c in chroms:
        for t, tl in enumerate(tiles[c]):
            if tl[1] * q <= p * w and sig_ok(c, tl) and t not in masks[c]:
                if tl[3] < len(elig):
                    elig[tl[3]].append((c, t))
    lh = [0] * (nb_exact + 2)
    usable = 0
    for l in loci:
        if l['valid'] and l['n'] * q <= p * w:
            usable += 1
            if l['bin'] < len(lh):
                lh[l['bin']] += 1
    rs = numpy.random.RandomState(inp['seed'])
    perms = []
    for b in range(nb_exact):
        lst = list(range(len(elig[b])))
        rs.shuffle(lst)
        perms.append(lst)
    return {'tiles': tiles, 'loci': loci, 'perms': perms, 'amb': amb, 'nb': nb_exact,
            'elig': [len(x) for x in elig], 'lh': lh, 'usable': usable,
            'lens': [len(s) for s in seqs], 'has_sig': has_sig}


# ----------------------------------------------------------------------------------------
# Coq literals

DUMMY = '(Call [] [] 1 1 (0, 1) (1, 2) None None 1%nat [[]; []; []], Ok [], true, true)'


def pair(a, b):
    return '(%s, %s)' % (C.z(a), C.z(b))


def eff_jobs(n):
    if n < 0:
        return max(1, (os.cpu_count() or 1) + 1 + n)
    return n


def coq_one(inp, out):
    m = measure(inp)
    if m['amb']:
        return DUMMY
    chroms = []
    for L, hs, ts in zip(m['lens'], m['has_sig'], m['tiles']):
        tl = C.lst(['Tile %s %d %s %d' % (C.z(t[0]), t[1], C.z(t[2]), t[3]) for t in ts])
        chroms.append('Chrom %d %s %s' % (L, C.boolean(hs), tl))
    loci = []
    for (c, s, e), l in zip(inp['loci'], m['loci']):
        loci.append('Locus %d %s %s %s %s %d %d %d %s %s %s' % (
            c, C.z(s), C.z(e), C.z(l['rs']), C.z(l['re']), l['gc'], l['n'], l['bin'],
            C.z(l['ss']), C.z(l['se']), C.z(l['sig'])))
    call = '(Call %s %s %d %d %s %s %s %s %d %s)' % (
        C.lst(chroms), C.lst(loci), inp['in_window'], inp['out_window'],
        pair(*inp['max_n']), pair(*inp['bw']),
        ('(Some %s)' % pair(*inp['beta'])) if inp['bigwig'] else 'None',
        'None' if inp['chroms'] is None else '(Some %s)' % C.lst(['%d%%nat' % c for c in inp['chroms']]),
        eff_jobs(inp['n_jobs']),
        C.lst([C.lst(['%d%%nat' % j for j in pm]) for pm in m['perms']]))
    if out['ok']:
        o = '(Ok %s)' % C.lst(['(%d%%nat, %s, %s)' % (c, C.z(s), C.z(e)) for c, s, e in out['rows']])
    else:
        o = 'Err'
    return '(%s, %s, %s, %s)' % (call, o, C.boolean(out['same']), C.boolean(out.get('unchanged', True)))


def coq_case(inp, out):
    if inp.get('dummy'):
        return '[%s]' % DUMMY
    return C.lst([coq_one(c, o) for c, o in zip(calls_of(inp), out['outs'])])


def spills(inp):
    m = measure(inp)
    return (not m['amb']) and any(l > e for l, e in zip(m['lh'], m['elig']))


def nontrivial(inp, out):
    if inp.get('dummy'):
        return False
    return any(o['ok'] and spills(c) for c, o in zip(calls_of(inp), out['outs']))


def key_one(inp, out):
    m = measure(inp)
    if m['amb']:
        return 'excluded-float:' + ','.join(sorted(set(m['amb'])))
    if not out['ok']:
        return 'raise'
    if out.get('note'):
        return out['note']
    tot_e = sum(m['elig'])
    kind = 'bigwig' if inp['bigwig'] else 'plain'
    if any(l > e for l, e in zip(m['lh'], m['elig'])):
        kind += '/spill'
    if m['usable'] > tot_e:
        kind += '/exhausted'
    if len(out['rows']) == 0:
        kind += '/empty'
    return kind


def hist_key(inp, out):
    if inp.get('dummy'):
        return 'dummy'
    cs = calls_of(inp)
    if 'seq' in inp:
        return 'sequence of %d calls (%s)' % (len(cs), inp.get('what', '?'))
    k = key_one(cs[0], out['outs'][0])
    return (inp['stream'] + ': ' + k) if inp.get('stream') else k


def tags(inp, out):
    return set()


# ----------------------------------------------------------------------------------------
# generators

BWS = [(1, 100), (1, 50), (1, 40), (3, 100), (1, 25), (1, 20), (3, 50), (7, 100), (2, 25), (9, 100), (1, 10)]
BETAS = [(1, 2), (1, 2), (1, 1), (1, 4), (2, 1), (3, 4)]
GC_LEVELS = [0, 5, 20, 30, 35, 40, 42, 45, 50, 50, 55, 60, 65, 70, 80, 95, 100]


def gen_signal(rng, L, w):
    signal = []
    rem = L
    while rem > 0:
        ln = min(rem, rng.choice([w, 2 * w, w // 3 + 1, rng.randint(1, 3 * w)]))
        signal.append([ln, rng.choice([None, 0, 0, 1, 1, 2, 3, 5, 8, 20])])
        rem -= ln
    return signal


def gen_case(rng, big, force_signal=False, max_tiles=None, nloci=None, w=None, nchrom=None, ascending=False):
    if w is None:
        w = rng.choice([50, 50, 60, 64, 75, 100, 100, 128, 150, 200] + ([250, 300, 400, 500] if big else [250, 500]))
    bigwig = rng.random() < 0.4
    if bigwig:
        ow = rng.choice([w, w, w - 1, w - 2, max(1, w // 2), max(1, w // 3), rng.randint(1, w)])
        if rng.random() < 0.03:
            ow = w + rng.randint(1, 20)       # rejected by the assertion
    else:
        ow = rng.choice([w, max(1, w // 2), rng.randint(1, w), w + rng.randint(1, 40)])
    if nchrom is None:
        nchrom = rng.choice([1, 1, 2, 2, 3, 4])
    if max_tiles is None:
        max_tiles = rng.choice([20, 40, 80, 150] if not big else [40, 100, 200, 400])
    genome = []
    for ci in range(nchrom):
        ntile = max(2, max_tiles // nchrom + rng.randint(-3, 3))
        if ascending:                 # later (in name order) chromosomes are longer
            ntile = max(2, max_tiles // (2 * nchrom)) + ci * rng.randint(2, 6)
        L = ntile * w + rng.choice([0, 0, 1, w // 2, w - 1])
        blocks = []
        rem = L
        while rem > 0:
            ln = min(rem, rng.choice([w, 2 * w, 3 * w, 5 * w, w // 2 + 1, rng.randint(1, 4 * w)]))
            kind = rng.random()
            if kind < 0.07:
                blocks.append([ln, 50, 100, False])            # N stretch
            else:
                nperc = rng.choice([0, 0, 0, 0, 2, 5, 10, 20, 40])
                blocks.append([ln, rng.choice(GC_LEVELS), nperc, rng.random() < 0.1])
            rem -= ln
        signal = gen_signal(rng, L, w) if (bigwig or force_signal) else []
        genome.append({'blocks': blocks, 'seed': rng.randint(0, 10 ** 6), 'signal': signal, 'len': L})
    if nloci is None:
        nloci = rng.choice([5, 8, 12, 20, 30, 50, 80, 120, 200])
        if not big:
            nloci = min(nloci, rng.choice([30, 60, 120, 200]))
    # loci concentrate on a few hot spots
    hot = []
    for _ in range(rng.randint(1, 4)):
        c = rng.randrange(nchrom)
        L = genome[c]['len']
        a = rng.randrange(max(1, L))
        hot.append((c, a, min(L, a + rng.choice([2 * w, 5 * w, 10 * w, L]))))
    loci = []
    for _ in range(nloci):
        c, a, b = rng.choice(hot)
        L = genome[c]['len']
        r = rng.random()
        if r < 0.08:
            c = rng.randrange(nchrom)
            L = genome[c]['len']
            s = rng.choice([0, 1, w // 2 - 1, L - w, L - w // 2, L - 1, max(0, L - w - 1)])
        else:
            s = rng.randint(a, max(a, b - 1))
        s = max(0, s)
        if rng.random() < 0.25:
            s = (s // w) * w
        width = rng.choice([w, w, w - 1, w + 1, 1, 2, 0, w // 2, 2 * w, 3 * w, rng.randint(1, 2 * w)])
        loci.append([c, s, s + width])
    p, q = rng.choice([(0, 1), (1, 100), (1, 20), (1, 10), (1, 10), (1, 5), (3, 10), (1, 2),
                       (rng.randint(0, w // 2), w)])
    chroms = None
    if rng.random() < 0.12:
        chroms = rng.sample(range(nchrom), rng.randint(1, nchrom))
    return {'genome': genome, 'loci': loci, 'in_window': w, 'out_window': ow, 'max_n': [p, q],
            'bw': list(rng.choice(BWS)), 'bigwig': bigwig, 'beta': list(rng.choice(BETAS)),
            'chroms': chroms, 'n_jobs': 1, 'seed': rng.randint(0, 2 ** 31 - 1)}


def gen_order_case(rng):
    """several chromosomes, longer ones later in name order, homogeneous G+C, few valid loci and a
    large background: each GC bin holds candidates of several chromosomes and is only partly
    taken, so the result depends on the order in which the chromosomes' candidates are merged"""
    w = rng.choice([50, 60, 64, 100])
    nchrom = rng.choice([2, 3, 3, 4])
    genome = []
    for ci in range(nchrom):
        nt = rng.randint(12, 18) + ci * rng.randint(3, 8)
        L = nt * w + rng.choice([0, 1, w // 2])
        blocks = [[L, rng.choice([45, 50, 55]), 0, False]]
        genome.append({'blocks': blocks, 'seed': rng.randint(0, 10 ** 6), 'signal': [[L, rng.choice([0, 1])]], 'len': L})
    loci = []
    for _ in range(rng.randint(8, 20)):
        c = rng.randrange(nchrom)
        s = rng.randint(w, genome[c]['len'] - 3 * w)
        loci.append([c, s, s + rng.choice([w, w - 1, w // 2])])
    bigwig = rng.random() < 0.3
    return {'genome': genome, 'loci': loci, 'in_window': w, 'out_window': rng.choice([w, w // 2]), 'max_n': [1, 10],
            'bw': list(rng.choice([(1, 20), (1, 10), (1, 25), (1, 50)])), 'bigwig': bigwig, 'beta': [2, 1],
            'chroms': None if rng.random() < 0.7 else rng.sample(range(nchrom), nchrom), 'n_jobs': 1,
            'seed': rng.randint(0, 2 ** 31 - 1)}


def vary_forms(rng, c, i):
    """the same call through other accepted argument forms / types (cycled, so every form of every
    argument occurs regularly whatever the seed)"""
    c['loci_form'] = ['bed', 'df_extra', 'df'][i % 3]
    if c['chroms'] is None and i % 2 == 0:
        n = len(c['genome'])
        c['chroms'] = rng.sample(range(n), rng.randint(max(1, n - 1), n))
    if c['chroms'] is not None:
        c['chroms_form'] = ['tuple', 'ndarray', 'list'][(i // 2) % 3]
    c['seed_form'] = ['np_int64', 'RandomState', 'int', 'np_int64'][i % 4]
    c['np_types'] = i % 5 in (0, 1)
    c['maxn_int'] = i % 7 == 0
    if c['maxn_int']:
        c['max_n'] = [0, 1]
    c['verbose'] = i % 3 == 1
    return c


def gen_boundary(rng, i):
    """boundary values of the integer parameters and the combinations the code special-cases"""
    kind = i % 9
    if kind == 0:
        # exact G+C counts on half-bin boundaries (the two float roundings of a bin index differ there)
        w, (bp, bq) = rng.choice([(100, (1, 50)), (200, (1, 100)), (500, (1, 10)), (100, (1, 50)), (50, (1, 25)), (200, (1, 40))])
        half = []                      # counts g with g/w / width = m + 1/2
        for g in range(w + 1):
            if (2 * g * bq) % (w * bp) == 0 and ((2 * g * bq) // (w * bp)) % 2 == 1:
                half.append(g)
        nt = rng.randint(20, 50)
        blocks = []
        for _ in range(nt):
            g = rng.choice(half) if half and rng.random() < 0.7 else rng.randint(0, w)
            blocks.append([w, g, 0, False, w])
        L = nt * w
        tl = rng.sample(range(nt), min(nt, rng.randint(5, nt // 2 + 5)))
        loci = [[0, t * w + 1, t * w + w - 1] for t in tl]
        return {'genome': [{'blocks': blocks, 'seed': rng.randint(0, 10 ** 6), 'signal': [], 'len': L}],
                'loci': loci, 'in_window': w, 'out_window': rng.choice([w, w // 2]), 'max_n': [1, 10],
                'bw': [bp, bq], 'bigwig': False, 'beta': [1, 2], 'chroms': None, 'n_jobs': 1,
                'seed': rng.randint(0, 2 ** 31 - 1)}
    c = gen_case(rng, False, force_signal=True, max_tiles=rng.choice([20, 40, 60]))
    w = c['in_window']
    if kind == 1:
        # signal exactly at the threshold: constant signal, beta = 1  (values <= threshold)
        for g in c['genome']:
            g['signal'] = [[g['len'], 3]]
        c.update(bigwig=True, beta=[1, 1], out_window=rng.choice([w, w - 1, w // 2]))
    elif kind == 2:
        c['loci'] = c['loci'][:rng.choice([0, 1, 1, 2])]            # 0 / 1 / 2 input loci
        c['bigwig'] = c['bigwig'] and c['out_window'] <= w
    elif kind == 3:
        # a chromosome shorter than the window (no tile), listed in chroms
        c['genome'].append({'blocks': [[rng.randint(1, w - 1), 50, 0, False]], 'seed': 5, 'signal': [[w, 1]], 'len': w - 1})
        c['chroms'] = list(range(len(c['genome'])))
        c['bigwig'] = c['bigwig'] and c['out_window'] <= w
    elif kind == 4:
        # zero-width loci, loci ending exactly at the chromosome end / starting at 0, tile-aligned ends
        loci = []
        for ci, g in enumerate(c['genome']):
            L = g['len']
            loci += [[ci, 0, w], [ci, L - w, L], [ci, L - 1, L], [ci, 3 * w, 3 * w], [ci, 2 * w, 4 * w],
                     [ci, w // 2, w // 2], [ci, L, L], [ci, max(0, L - w // 2), L + w]]
        c['loci'] = loci + c['loci'][:10]
    elif kind == 5:
        c.update(bigwig=True, out_window=rng.choice([1, 2, w, w - 1]))      # extreme out_window
    elif kind == 6:
        # the bigwig lacks a chromosome (outside the property's scope: only the tie looks at it)
        if len(c['genome']) < 2:
            c['genome'].append({'blocks': [[10 * w, 40, 0, False]], 'seed': 9, 'signal': [[10 * w, 1]], 'len': 10 * w})
            c['loci'].append([1, 2 * w, 3 * w])
        c['genome'][rng.randrange(len(c['genome']))]['in_bw'] = False
        c.update(bigwig=True, out_window=min(c['out_window'], w), chroms=list(range(len(c['genome']))))
    elif kind == 7:
        # 200 loci on a small genome: the background is exhausted; max_n_perc = 1/2 and many N
        g = c['genome'][0]
        L = g['len']
        c['loci'] = [[0, rng.randrange(L), 0] for _ in range(200)]
        c['loci'] = [[a, s, s + rng.choice([w, 1, w // 2])] for a, s, _ in c['loci']]
        c['max_n'] = [1, 2]
        c['bigwig'] = False
    else:
        # in_window at the ends of its range, max_n_perc hit exactly
        w = rng.choice([50, 500])
        c = gen_case(rng, False, max_tiles=20, w=w)
        k = rng.randint(0, w // 2)
        c.update(max_n=[k, w])
    return c


STEP_KINDS = ['in_window', 'out_window', 'max_n', 'bw', 'bigwig', 'beta', 'chroms', 'seed', 'seed_form',
              'loci', 'loci_form', 'genome', 'np_types', 'n_jobs']


def gen_sequence(rng, i):
    """calls made one after the other in one process on the same file paths, one thing changed per
    step (stale caches / module state keyed on an incomplete key would show)"""
    base = gen_case(rng, False, force_signal=True, max_tiles=rng.choice([16, 24, 40]), nloci=rng.choice([5, 8, 12, 20, 30]))
    if base['bigwig'] and base['out_window'] > base['in_window']:
        base['out_window'] = base['in_window']
    steps = [base]
    what = []
    kinds = STEP_KINDS[:-1]               # cycled, so every kind of step occurs regularly
    for j in range(3):
        c = json.loads(json.dumps(steps[-1]))
        w = c['in_window']
        kind = kinds[(3 * i + j) % len(kinds)]
        if j == 2 and i % 12 == 5:
            kind = 'n_jobs'
        if kind == 'in_window':
            c['in_window'] = rng.choice([x for x in (50, 60, 64, 75, 100, 128) if x != w])
            c['out_window'] = min(c['out_window'], c['in_window'])
        elif kind == 'out_window':
            c['out_window'] = rng.choice([x for x in (w, w - 1, w // 2, 1) if x != c['out_window']])
        elif kind == 'max_n':
            c['max_n'] = list(rng.choice([x for x in [(0, 1), (1, 20), (1, 10), (3, 10), (1, 2)] if list(x) != c['max_n']]))
        elif kind == 'bw':
            c['bw'] = list(rng.choice([x for x in BWS if list(x) != c['bw']]))
        elif kind == 'bigwig':
            c['bigwig'] = not c['bigwig']
            c['out_window'] = min(c['out_window'], w)
        elif kind == 'beta':
            c['bigwig'] = True
            c['out_window'] = min(c['out_window'], w)
            c['beta'] = list(rng.choice([x for x in BETAS if list(x) != c['beta']]))
        elif kind == 'chroms':
            n = len(c['genome'])
            c['chroms'] = None if c['chroms'] is not None else rng.sample(range(n), rng.randint(1, n))
        elif kind == 'seed':
            c['seed'] = rng.randint(0, 2 ** 31 - 1)
        elif kind == 'seed_form':
            c['seed_form'] = rng.choice([x for x in ('int', 'np_int64', 'RandomState') if x != c.get('seed_form', 'int')])
        elif kind == 'loci':
            c['loci'] = c['loci'][len(c['loci']) // 2:] + [[l[0], max(0, l[1] - w), l[2]] for l in c['loci'][:2]]
        elif kind == 'loci_form':
            c['loci_form'] = rng.choice([x for x in ('df', 'bed', 'df_extra') if x != c.get('loci_form', 'df')])
        elif kind == 'genome':
            for g in c['genome']:
                g['seed'] += 1                    # other content, same path, same lengths
        elif kind == 'np_types':
            c['np_types'] = not c.get('np_types', False)
        elif kind == 'n_jobs':
            c['n_jobs'] = 2 if c['n_jobs'] == 1 else 1
        what.append(kind)
        steps.append(c)
    return {'seq': steps, 'what': '+'.join(what)}


def generate(tier, rng):
    big = tier == 'thorough'
    n = 1000 if big else 260
    njobs = 30 if big else 12         # calls through joblib worker processes are slow to start:
    nm1 = 4 if big else 2
    cases = []
    for i in range(njobs + nm1):
        # the cases run through worker processes: half of them with several chromosomes whose
        # length order differs from their name order, a large background and few loci, so that
        # the selection depends on the order in which the chromosomes' candidates are merged
        if i % 2 == 0:
            c = gen_order_case(rng)
        else:
            c = gen_case(rng, big)
        # 2, 3, 4 grouped (the pool is reused), then -1 = the default, all CPUs
        c['n_jobs'] = 2 + (3 * i) // njobs if i < njobs else -1
        cases.append(c)
    cases += [gen_case(rng, big) for _ in range(n - len(cases))]
    for c in cases:
        yield c
    for i in range(270 if big else 54):
        c = gen_boundary(rng, i)
        c['stream'] = 'boundary%d' % (i % 9)
        yield c
    for i in range(300 if big else 60):
        c = vary_forms(rng, gen_case(rng, False, max_tiles=rng.choice([60, 100, 150]), nloci=rng.choice([5, 8, 12, 20, 30])), i)
        c['stream'] = 'forms'
        yield c
    seqs = [gen_sequence(rng, i) for i in range(150 if big else 36)]
    seqs.sort(key=lambda s: 0 if 'n_jobs' not in s['what'] else 1)     # worker-pool sequences last
    for s in seqs:
        yield s


def shrink(inp):
    if inp.get('dummy'):
        return
    if 'seq' in inp:
        st = inp['seq']
        if len(st) > 1:
            yield st[-1]                       # the last call alone
            for i in range(len(st)):
                yield dict(inp, seq=st[:i] + st[i + 1:])
        return
    if inp['n_jobs'] != 1:            # first: leave the (slow) worker processes out
        yield dict(inp, n_jobs=1)
    for k in ('verbose', 'np_types', 'maxn_int', 'loci_form', 'chroms_form', 'seed_form'):
        if inp.get(k) not in (None, False, 'df', 'list', 'int'):
            c = dict(inp)
            del c[k]
            yield c
    # fewer loci
    L = inp['loci']
    if len(L) > 1:
        yield dict(inp, loci=L[:len(L) // 2])
        yield dict(inp, loci=L[len(L) // 2:])
        if len(L) > 8:
            q = len(L) // 4
            yield dict(inp, loci=L[q:])
            yield dict(inp, loci=L[:-q])
        for i in range(min(len(L), 8)):
            yield dict(inp, loci=L[:i] + L[i + 1:])
    # drop the last chromosome if unused
    g = inp['genome']
    if len(g) > 1 and all(c < len(g) - 1 for c, _, _ in L) and (inp['chroms'] is None or all(c < len(g) - 1 for c in inp['chroms'])):
        yield dict(inp, genome=g[:-1])
    # drop trailing blocks
    for ci, c in enumerate(g):
        if len(c['blocks']) > 1:
            g2 = list(g)
            g2[ci] = dict(c, blocks=c['blocks'][:-1], len=c['len'] - c['blocks'][-1][0])
            yield dict(inp, genome=g2)
    if inp['chroms'] is not None:
        yield dict(inp, chroms=None)
