"""C17 - match.extract_matching_loci: correspondence with coq/C17 (model + spec).

An input describes a synthetic genome generatively (blocks with a G+C level, an N rate, a
case), an optional piecewise-constant integer signal, the input loci and the call's
parameters.  run_impl writes the FASTA / bigwig under /tmp and calls the real function (and
once more with n_jobs=1).  coq_case measures, independently of /repo, the per-tile and
per-locus attributes on the generated strings (G+C count, N count, signal sum, GC bin with
the code's float expression) and replays numpy's RandomState.shuffle stream to obtain the
permutation applied to every GC bin; coqc then evaluates model, spec and the consistency
of those attributes with exact rational arithmetic.
"""
import json
import os
import random
import shutil
from fractions import Fraction

import numpy

from . import common as C

PID = 'C17'
IMPORTS = ['C17.Model', 'C17.Spec']
CASE_TYPE = 'case'
CHECK = 'check_case'
SHARD = 30
RULE = ('synthetic genomes of 1-4 chromosomes made of blocks with graded G+C level (0-100%, incl. pure '
        'G/C and pure A/T), N stretches and sprinkled N, some lower case; 5-200 input loci concentrated on '
        'a few blocks (some narrower/wider than the window, tile-aligned, hanging over a chromosome end); '
        'in_window 50-500, out_window <=/>= in_window, gc_bin_width in {0.01..0.1 incl. 0.06, 0.08}, '
        'max_n_perc in {0..0.5 incl. values hit exactly by k/width}, with/without bigwig (integer signal, '
        'uncovered stretches, signal_beta 1/4..2), chroms None/explicit, n_jobs 1-4, integer seeds; '
        'non-trivial = accepted call in which some GC bin has more usable input loci than eligible '
        'background tiles (the spill loops run)')
TRUSTED = ['the harness measures G+C / N counts and signal sums on the strings it generated and computes the '
           'GC bin of a count with the same float64 expression as the code; Coq checks each bin against exact '
           'rational binning up to 1e-9 and recomputes validity, regions, thresholds and filters exactly',
           'numpy RandomState.shuffle is replayed on index lists of the per-bin lengths computed by the harness; '
           'Coq checks each replayed list is a permutation of the spec-side eligible count of its bin',
           'pyfaidx / pyBigWig return the bytes / values of the files written by the harness (not verified)']
ASSUMPTIONS = ['joblib Parallel returns results in task order (modelled as map over chunks; exercised by running '
               'every case with n_jobs=k and n_jobs=1)',
               'float comparisons  count/width <= max_n_perc  and  sum <= threshold  agree with the exact rational '
               'comparison; inputs where the float mirror disagrees are excluded and counted (hist key excluded-float)']

NAMES = ['cA', 'cB', 'cC', 'cD', 'cE', 'cF']
TMP = '/tmp/c17_run_%d' % os.getpid()


# ----------------------------------------------------------------------------------------
# genome / signal expansion (deterministic in the input)

def expand_seq(blocks, seed):
    out = []
    for bi, (length, gc, nperc, lower) in enumerate(blocks):
        rnd = random.Random(seed * 7919 + bi)
        s = []
        for _ in range(length):
            if nperc and rnd.randrange(100) < nperc:
                s.append('N')
            elif rnd.randrange(100) < gc:
                s.append(rnd.choice('GC'))
            else:
                s.append(rnd.choice('AT'))
        s = ''.join(s)
        out.append(s.lower() if lower else s)
    return ''.join(out)


def expand_signal(segs, length):
    """segs: [[len, value|None], ...] -> float array of the chromosome length (nan = uncovered)"""
    v = numpy.full(length, numpy.nan)
    pos = 0
    for ln, val in segs:
        if pos >= length:
            break
        end = min(length, pos + ln)
        if val is not None:
            v[pos:end] = val
        pos = end
    return v


def materialise(inp):
    seqs = [expand_seq(c['blocks'], c['seed']) for c in inp['genome']]
    sigs = None
    if inp['bigwig']:
        sigs = [expand_signal(c['signal'], len(s)) for c, s in zip(inp['genome'], seqs)]
    return seqs, sigs


def write_files(inp, seqs, sigs, d):
    os.makedirs(d, exist_ok=True)
    fa = os.path.join(d, 'g.fa')
    with open(fa, 'w') as f:
        for name, s in zip(NAMES, seqs):
            f.write('>%s\n' % name)
            for i in range(0, len(s), 60):
                f.write(s[i:i + 60] + '\n')
    bw = None
    if sigs is not None:
        import pyBigWig
        bw = os.path.join(d, 's.bw')
        h = pyBigWig.open(bw, 'w')
        h.addHeader([(name, len(s)) for name, s in zip(NAMES, seqs)])
        for name, c in zip(NAMES, inp['genome']):
            L = len(seqs[NAMES.index(name)])
            pos = 0
            st, en, va = [], [], []
            for ln, val in c['signal']:
                if pos >= L:
                    break
                end = min(L, pos + ln)
                if val is not None and end > pos:
                    st.append(pos); en.append(end); va.append(float(val))
                pos = end
            if st:
                h.addEntries([name] * len(st), st, ends=en, values=va)
        h.close()
    return fa, bw


# ----------------------------------------------------------------------------------------
# implementation

_counter = [0]


def call_impl(inp, fa, bw, n_jobs):
    import pandas
    from tangermeme.match import extract_matching_loci
    loci = pandas.DataFrame({'chrom': [NAMES[c] for c, _, _ in inp['loci']],
                             'start': [s for _, s, _ in inp['loci']],
                             'end': [e for _, _, e in inp['loci']]})
    chroms = None if inp['chroms'] is None else [NAMES[c] for c in inp['chroms']]
    kw = dict(in_window=inp['in_window'], out_window=inp['out_window'],
              max_n_perc=inp['max_n'][0] / inp['max_n'][1],
              gc_bin_width=inp['bw'][0] / inp['bw'][1],
              chroms=chroms, random_state=inp['seed'], n_jobs=n_jobs, verbose=False)
    if bw is not None:
        kw['bigwig'] = bw
        kw['signal_beta'] = inp['beta'][0] / inp['beta'][1]
    r = extract_matching_loci(loci, fa, **kw)
    rows = [[NAMES.index(c), int(s), int(e)] for c, s, e in zip(r['chrom'], r['start'], r['end'])]
    return rows


def run_impl(inp):
    if inp.get('dummy'):
        return {'ok': True, 'rows': [], 'same': True}
    _counter[0] += 1
    d = os.path.join(TMP, 'case%d' % _counter[0])
    try:
        seqs, sigs = materialise(inp)
        fa, bw = write_files(inp, seqs, sigs, d)
        try:
            rows = call_impl(inp, fa, bw, inp['n_jobs'])
            ok = True
        except Exception as e:
            rows, ok = None, False
            err = '%s: %s' % (type(e).__name__, e)
        same = True
        if inp['n_jobs'] != 1:
            try:
                rows1 = call_impl(inp, fa, bw, 1)
                same = ok and rows1 == rows
            except Exception:
                same = not ok
        out = {'ok': ok, 'rows': rows, 'same': same}
        if not ok:
            out['error'] = err[:300]
        return out
    finally:
        shutil.rmtree(d, ignore_errors=True)
        try:
            os.rmdir(TMP)
        except OSError:
            pass


# ----------------------------------------------------------------------------------------
# independent measurement of the attributes the model needs

def float_bins(counts, w, bwf):
    """the code's expression on exact count / width"""
    arr = numpy.fromiter((c / w for c in counts), dtype=float, count=len(counts))
    return ((arr + bwf / 2.) // bwf).astype(int).tolist()


_memo = {}


def measure(inp):
    key = id(inp)
    if key in _memo and _memo[key][0] is inp:
        return _memo[key][1]
    m = _measure(inp)
    if len(_memo) > 4000:
        _memo.clear()
    _memo[key] = (inp, m)
    return m


def _measure(inp):
    seqs, sigs = materialise(inp)
    seqs = [s.upper() for s in seqs]
    w, ow = inp['in_window'], inp['out_window']
    p, q = inp['max_n']
    bp, bq = inp['bw']
    bwf = bp / bq
    maxnf = p / q
    amb = []
    nb_exact = (2 * bq + bp) // (2 * bp) + 1
    nb_float = int((1. + bwf / 2.) // bwf) + 1
    if nb_exact != nb_float:
        amb.append('nbins')
    lf, rf = (w - ow) // 2, (w - ow + 1) // 2
    tiles = []
    for ci, s in enumerate(seqs):
        nt = len(s) // w
        gcs = [s[t * w:(t + 1) * w].count('G') + s[t * w:(t + 1) * w].count('C') for t in range(nt)]
        ns = [s[t * w:(t + 1) * w].count('N') for t in range(nt)]
        bins = float_bins(gcs, w, bwf)
        if sigs is not None and ow <= w:
            v = numpy.nan_to_num(sigs[ci], nan=0.0)
            ss = [int(round(float(v[t * w + lf:(t + 1) * w - rf].sum()))) for t in range(nt)]
        else:
            ss = [0] * nt
        tiles.append(list(zip(gcs, ns, ss, bins)))
    loci = []
    W = max(w, ow)
    for (c, s, e) in inp['loci']:
        mid = s + (e - s) // 2
        vs, ve = mid - W // 2, mid + (W + 1) // 2
        valid = vs >= 0 and ve <= len(seqs[c])
        rec = {'valid': valid, 'rs': 0, 're': 0, 'gc': 0, 'n': 0, 'bin': 0, 'ss': 0, 'se': 0, 'sig': 0}
        if valid:
            rs, re_ = mid - w // 2, mid + (w + 1) // 2
            sub = seqs[c][rs:re_]
            rec.update(rs=rs, re=re_, gc=sub.count('G') + sub.count('C'), n=sub.count('N'))
            rec['bin'] = float_bins([rec['gc']], w, bwf)[0]
            s0, s1 = mid - ow // 2, mid + (ow + 1) // 2
            rec.update(ss=s0, se=s1)
            if sigs is not None:
                v = numpy.nan_to_num(sigs[c], nan=0.0)
                rec['sig'] = int(round(float(v[s0:s1].sum())))
        loci.append(rec)
    # float N comparisons vs exact
    for c in set([t[1] for ts in tiles for t in ts] + [l['n'] for l in loci if l['valid']]):
        if (c / w <= maxnf) != (c * q <= p * w):
            amb.append('nfrac')
            break
    # threshold (times 100), exact
    thr100 = None
    if inp['bigwig']:
        betp, betq = inp['beta']
        vals = sorted(l['sig'] for l in loci if l['valid'])
        if vals:
            mlen = len(vals) - 1
            lo, g = mlen // 100, mlen % 100
            thr100 = 100 * vals[lo] + (vals[min(lo + 1, mlen)] - vals[lo]) * g
            tf = numpy.nanquantile(numpy.array(vals, dtype=float), 0.01).item() * (betp / betq)
            for ts in tiles:
                for t in ts:
                    fl = bool(numpy.array([t[2]], dtype=numpy.float32) <= tf)
                    if fl != (t[2] * 100 * betq <= thr100 * betp):
                        amb.append('threshold')
                        break

    def sig_ok(t):
        if not inp['bigwig']:
            return True
        if thr100 is None:
            return False
        return t[2] * 100 * inp['beta'][1] <= thr100 * inp['beta'][0]

    if inp['chroms'] is None:
        chroms = sorted(set(c for c, _, _ in inp['loci']))
    else:
        chroms = list(inp['chroms'])
    masks = {c: set() for c in chroms}
    for (c, s, e) in inp['loci']:
        if c in masks:
            masks[c].update(range(s // w, e // w + 1))
    elig = [[] for _ in range(nb_exact + 2)]
    for c in chroms:
        for t, tl in enumerate(tiles[c]):
            if tl[1] * q <= p * w and sig_ok(tl) and t not in masks[c]:
                if tl[3] < len(elig):
                    elig[tl[3]].append((c, t))
    lh = [0] * (nb_exact + 2)
    usable = 0
    for l in loci:
        if l['valid'] and l['n'] * q <= p * w:
            usable += 1
            if l['bin'] < len(lh):
                lh[l['bin']] += 1
    rs = numpy.random.RandomState(inp['seed'])
    perms = []
    for b in range(nb_exact):
        lst = list(range(len(elig[b])))
        rs.shuffle(lst)
        perms.append(lst)
    return {'tiles': tiles, 'loci': loci, 'perms': perms, 'amb': amb, 'nb': nb_exact,
            'elig': [len(x) for x in elig], 'lh': lh, 'usable': usable,
            'lens': [len(s) for s in seqs]}


# ----------------------------------------------------------------------------------------
# Coq literals

DUMMY = '(Call [] [] 1 1 (0, 1) (1, 2) None None 1%nat [[]; []; []], Ok [], true)'


def pair(a, b):
    return '(%s, %s)' % (C.z(a), C.z(b))


def coq_case(inp, out):
    if inp.get('dummy'):
        return DUMMY
    m = measure(inp)
    if m['amb']:
        return DUMMY
    chroms = []
    for L, ts in zip(m['lens'], m['tiles']):
        tl = C.lst(['Tile %d %d %d %d' % t for t in ts])
        chroms.append('Chrom %d %s' % (L, tl))
    loci = []
    for (c, s, e), l in zip(inp['loci'], m['loci']):
        loci.append('Locus %d %s %s %s %s %d %d %d %s %s %d' % (
            c, C.z(s), C.z(e), C.z(l['rs']), C.z(l['re']), l['gc'], l['n'], l['bin'],
            C.z(l['ss']), C.z(l['se']), l['sig']))
    call = '(Call %s %s %d %d %s %s %s %s %d %s)' % (
        C.lst(chroms), C.lst(loci), inp['in_window'], inp['out_window'],
        pair(*inp['max_n']), pair(*inp['bw']),
        ('(Some %s)' % pair(*inp['beta'])) if inp['bigwig'] else 'None',
        'None' if inp['chroms'] is None else '(Some %s)' % C.lst(['%d%%nat' % c for c in inp['chroms']]),
        inp['n_jobs'],
        C.lst([C.lst(['%d%%nat' % j for j in pm]) for pm in m['perms']]))
    if out['ok']:
        o = '(Ok %s)' % C.lst(['(%d%%nat, %s, %s)' % (c, C.z(s), C.z(e)) for c, s, e in out['rows']])
    else:
        o = 'Err'
    return '(%s, %s, %s)' % (call, o, C.boolean(out['same']))


def nontrivial(inp, out):
    if inp.get('dummy') or not out['ok']:
        return False
    m = measure(inp)
    if m['amb']:
        return False
    return any(l > e for l, e in zip(m['lh'], m['elig']))


def hist_key(inp, out):
    if inp.get('dummy'):
        return 'dummy'
    m = measure(inp)
    if m['amb']:
        return 'excluded-float:' + ','.join(sorted(set(m['amb'])))
    if not out['ok']:
        return 'raise'
    tot_e = sum(m['elig'])
    kind = 'bigwig' if inp['bigwig'] else 'plain'
    if any(l > e for l, e in zip(m['lh'], m['elig'])):
        kind += '/spill'
    if m['usable'] > tot_e:
        kind += '/exhausted'
    if len(out['rows']) == 0:
        kind += '/empty'
    return kind


def tags(inp, out):
    return set()


# ----------------------------------------------------------------------------------------
# generators

BWS = [(1, 100), (1, 50), (1, 40), (3, 100), (1, 25), (1, 20), (3, 50), (7, 100), (2, 25), (9, 100), (1, 10)]
BETAS = [(1, 2), (1, 2), (1, 1), (1, 4), (2, 1), (3, 4)]


def gen_case(rng, big):
    w = rng.choice([50, 50, 60, 64, 75, 100, 100, 128, 150, 200] + ([250, 300, 400, 500] if big else [250, 500]))
    bigwig = rng.random() < 0.4
    if bigwig:
        ow = rng.choice([w, w, w - 1, w - 2, max(1, w // 2), max(1, w // 3), rng.randint(1, w)])
        if rng.random() < 0.03:
            ow = w + rng.randint(1, 20)       # rejected by the assertion
    else:
        ow = rng.choice([w, max(1, w // 2), rng.randint(1, w), w + rng.randint(1, 40)])
    nchrom = rng.choice([1, 1, 2, 2, 3, 4])
    max_tiles = rng.choice([20, 40, 80, 150] if not big else [40, 100, 200, 400])
    genome = []
    gc_levels = [0, 5, 20, 30, 35, 40, 42, 45, 50, 50, 55, 60, 65, 70, 80, 95, 100]
    for ci in range(nchrom):
        ntile = max(2, max_tiles // nchrom + rng.randint(-3, 3))
        L = ntile * w + rng.choice([0, 0, 1, w // 2, w - 1])
        blocks = []
        rem = L
        while rem > 0:
            ln = min(rem, rng.choice([w, 2 * w, 3 * w, 5 * w, w // 2 + 1, rng.randint(1, 4 * w)]))
            kind = rng.random()
            if kind < 0.07:
                blocks.append([ln, 50, 100, False])            # N stretch
            else:
                nperc = rng.choice([0, 0, 0, 0, 2, 5, 10, 20, 40])
                blocks.append([ln, rng.choice(gc_levels), nperc, rng.random() < 0.1])
            rem -= ln
        signal = []
        if bigwig:
            rem = L
            while rem > 0:
                ln = min(rem, rng.choice([w, 2 * w, w // 3 + 1, rng.randint(1, 3 * w)]))
                val = rng.choice([None, 0, 0, 1, 1, 2, 3, 5, 8, 20])
                signal.append([ln, val])
                rem -= ln
        genome.append({'blocks': blocks, 'seed': rng.randint(0, 10 ** 6), 'signal': signal, 'len': L})
    nloci = rng.choice([5, 8, 12, 20, 30, 50, 80, 120, 200])
    if not big:
        nloci = min(nloci, rng.choice([30, 60, 120, 200]))
    # loci concentrate on a few hot spots
    hot = []
    for _ in range(rng.randint(1, 4)):
        c = rng.randrange(nchrom)
        L = genome[c]['len']
        a = rng.randrange(max(1, L))
        hot.append((c, a, min(L, a + rng.choice([2 * w, 5 * w, 10 * w, L]))))
    loci = []
    for _ in range(nloci):
        c, a, b = rng.choice(hot)
        L = genome[c]['len']
        r = rng.random()
        if r < 0.08:
            c = rng.randrange(nchrom)
            L = genome[c]['len']
            s = rng.choice([0, 1, w // 2 - 1, L - w, L - w // 2, L - 1, max(0, L - w - 1)])
        else:
            s = rng.randint(a, max(a, b - 1))
        s = max(0, s)
        if rng.random() < 0.25:
            s = (s // w) * w
        width = rng.choice([w, w, w - 1, w + 1, 1, 2, w // 2, 2 * w, 3 * w, rng.randint(1, 2 * w)])
        loci.append([c, s, s + width])
    p, q = rng.choice([(0, 1), (1, 100), (1, 20), (1, 10), (1, 10), (1, 5), (3, 10), (1, 2),
                       (rng.randint(0, w // 2), w)])
    chroms = None
    r = rng.random()
    if r < 0.12:
        chroms = rng.sample(range(nchrom), rng.randint(1, nchrom))
    inp = {'genome': genome, 'loci': loci, 'in_window': w, 'out_window': ow, 'max_n': [p, q],
           'bw': list(rng.choice(BWS)), 'bigwig': bigwig, 'beta': list(rng.choice(BETAS)),
           'chroms': chroms, 'n_jobs': rng.choice([1, 1, 1, 2, 3, 4]) if big else rng.choice([1, 1, 1, 1, 1, 1, 2, 3, 4]),
           'seed': rng.randint(0, 2 ** 31 - 1)}
    return inp


def generate(tier, rng):
    big = tier == 'thorough'
    n = 2400 if big else 320
    njobs = 40 if big else 12         # calls through joblib worker processes are slow to start:
    cases = [gen_case(rng, big) for _ in range(n)]
    for c in cases:                   # most cases run with n_jobs=1 ...
        c['n_jobs'] = 1
    for i, c in enumerate(cases[:njobs]):   # ... these with 2, 3, 4 (grouped: the pool is reused)
        c['n_jobs'] = 2 + (3 * i) // njobs
    for c in cases:
        yield c


def shrink(inp):
    if inp.get('dummy'):
        return
    if inp['n_jobs'] != 1:            # first: leave the (slow) worker processes out
        yield dict(inp, n_jobs=1)
    # fewer loci
    L = inp['loci']
    if len(L) > 1:
        yield dict(inp, loci=L[:len(L) // 2])
        yield dict(inp, loci=L[len(L) // 2:])
        if len(L) > 8:
            q = len(L) // 4
            yield dict(inp, loci=L[q:])
            yield dict(inp, loci=L[:-q])
        for i in range(min(len(L), 8)):
            yield dict(inp, loci=L[:i] + L[i + 1:])
    # drop the last chromosome if unused
    g = inp['genome']
    if len(g) > 1 and all(c < len(g) - 1 for c, _, _ in L) and (inp['chroms'] is None or all(c < len(g) - 1 for c in inp['chroms'])):
        yield dict(inp, genome=g[:-1])
    # drop trailing blocks
    for ci, c in enumerate(g):
        if len(c['blocks']) > 1:
            g2 = list(g)
            g2[ci] = dict(c, blocks=c['blocks'][:-1], len=c['len'] - c['blocks'][-1][0])
            yield dict(inp, genome=g2)
    if inp['chroms'] is not None:
        yield dict(inp, chroms=None)
