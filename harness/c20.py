"""C20 - design.greedy_substitution: correspondence with coq/C20 (model + brute-force spec).

The torch module handed to greedy_substitution is a two-layer network with integer weights
whose outputs are multiples of `scale`; target, mask and loss are chosen so that every loss
value the implementation computes (a mean over the masked outputs) is a dyadic rational with
a handful of bits, hence exact in float64 (and in float32 for the bounded networks that are
run in float32).  The same weights are printed into the Coq case, where model and spec
evaluate the same loss in Z.

One case is a SEQUENCE of calls made one after the other in one process; the caller's objects
(X, y, mask, motif container, alphabet, network) are re-used between the calls of a sequence
wherever their contents are equal, so state leaking from one call into the next (a stale cache,
caller data modified in place) makes a later call disagree with the model, which judges every
call on its nominal input.  A single call is a sequence of length one.
"""
import contextlib
import io
import json
import os
import signal
from fractions import Fraction

# _fast_tile_substitute is a numba prange kernel over <= 41 rows: a full-size thread pool only adds
# spin-wait contention (measured 30x slower on a loaded 16-core host); must be set before numba loads
os.environ.setdefault('NUMBA_NUM_THREADS', '2')

import numpy
import torch

from . import common as C

PID = 'C20'
COQ_DIRS = ['C01', 'C20']                 # C20 reuses C01's model of ersatz.substitute and its lemmas
IMPORTS = ['Base.OneHot', 'C01.Model', 'C20.Model', 'C20.Spec']
CASE_TYPE = 'case'
CHECK = 'check_case'
SHARD = 40
RULE = ('seeded random calls and call sequences: exact integer two-layer position-sensitive networks (1-3 hidden '
        'units, relu or linear, 1-8 outputs, 2-D or 3-D output tensors, float64 or float32 parameters, eval or '
        'train mode), sequences of length 8-40 over alphabets of 2-5 letters in any letter order, X as '
        'float32/float64/int8/int64, 1-5 motifs of length 1-8 (incl. full-length motifs and directed cases whose '
        'unique best placement is the last fitting position L-m) given as list/tuple/numpy array of strings, masks '
        'as bool tensor/list/numpy/index tensor or the default, default / MSE / L1 / asymmetric callable loss, '
        'max_iter in {-1,0,1,2,3,4} plus the exact number of available rounds +-1 (int/numpy/float/default), tol a '
        'dyadic rational in [0,1], the default 1e-3, or exactly the best improvement of some round +-1/8 '
        '(float/int/numpy/tensor/default), batch sizes 1-64 incl. exactly the number of candidates +-1, verbose, '
        'the unused start argument; sequences of 2-5 calls in one process re-using the same objects with ONE thing '
        'changed (repeat, max_iter, tol, mask, batch size, alphabet order with the same motif strings, alphabet '
        'size, dtypes, loss, motif order); compared per call: the returned sequence and that no caller object was '
        'modified; non-trivial = some call returns a sequence that differs from its start (an accepted round)')
EXHAUSTIVE = {'quick': False, 'thorough': False}
TRUSTED = ['the exact-arithmetic torch module (harness/c20.py Net) and the printing of its weights into the Coq case',
           'floating point evaluates the generated losses exactly (checked per call on the starting sequence '
           'against Fractions; float32 networks only when a bound on every intermediate value is below 2^22)']
ASSUMPTIONS = ['loss is a deterministic function of one sequence: predict acts example-wise in eval mode '
               '(exercised with batch sizes 1-64)',
               'torch.argmin returns the first minimiser on exact ties',
               'out-of-fuel: the model and the spec explore at most cfuel rounds (48 for max_iter=-1); '
               'Proofs.greedy_terminates states the fuel that always suffices']
LETTERS = 'ACGTXY'
MIN_L = 8
TIMEOUT_S = 10          # a normal call takes milliseconds; a call that does not return counts as raised
DEFAULT_TOL = Fraction(1e-3)            # the exact value of the default tol=1e-3
_timeouts = [0]
_hung = set()            # inputs (as JSON) on which the implementation did not return

FORM_DEFAULTS = {'x_dtype': 'float32', 'net_dtype': 'float64', 'y_dtype': 'float64', 'mask_form': 'tensor',
                 'tol_form': 'float', 'max_form': 'int', 'motifs_form': 'list', 'alphabet_form': 'list',
                 'bs_form': 'int', 'verbose': False, 'start': None, 'train': False}
DTYPES = {'float32': torch.float32, 'float64': torch.float64, 'int8': torch.int8, 'int64': torch.int64}


def calls_of(inp):
    if 'calls' in inp:
        return inp['calls']
    return [{k: v for k, v in inp.items() if not k.startswith('_')}]


def form(call, k):
    return call.get('forms', {}).get(k, FORM_DEFAULTS[k])


def alphabet_of(call):
    return call.get('alphabet') or LETTERS[:call['A']]


# ----------------------------------------------------------------------------------------
# exact reference of the network + loss (used for generating inputs and for the float check)

def column(A, k):
    c = [0] * A
    if 0 <= k < A:
        c[k] = 1
    return c


def py_forward(net, seq):
    """seq: list of letter codes; returns the flat list of output units (ints)."""
    hs = []
    for w, b in zip(net['W1'], net['b1']):
        z = b + sum(w[p][k] for p, k in enumerate(seq) if 0 <= k < len(w[p]))
        hs.append(max(0, z) if net['relu'] else z)
    return [net['scale'] * (sum(a * h for a, h in zip(w, hs)) + b) for w, b in zip(net['W2'], net['b2'])]


def mask_of(call):
    """mask over the n outputs (dimension 1 of the model output)"""
    T = call.get('T') or 1
    n = len(call['net']['W2']) // T
    return call['mask'] if call['mask'] is not None else [True] * n


def unit_mask(call):
    """mask over the n*T output units in the order of W2's rows (row j*T + t)"""
    T = call.get('T') or 1
    return [m for m in mask_of(call) for _ in range(T)]


def elem_loss(kind, d):
    """loss(y, y_hat) with d = y - y_hat"""
    if kind == 'l1':
        return abs(d)
    if kind == 'asym':
        return 2 * max(0, d) + max(0, -d)
    return d * d


def py_loss(call, seq):
    """exact mean loss over the masked output units"""
    out = py_forward(call['net'], seq)
    mk = unit_mask(call)
    tot = 0
    for t, o, m in zip(call['target'], out, mk):
        if m:
            tot += elem_loss(call['loss'], call['net']['scale'] * t - o)
    return Fraction(tot, sum(1 for m in mk if m))


def py_best(call, seq):
    """(best loss, motif idx, pos) over every fitting single substitution; None if none fits"""
    best = None
    for i, mo in enumerate(call['motifs']):
        for p in range(len(seq) - len(mo) + 1):
            s = seq[:p] + mo + seq[p + len(mo):]
            l = py_loss(call, s)
            if best is None or l < best[0]:
                best = (l, i, p)
    return best


def py_rounds(call, tol=Fraction(0), limit=12):
    """number of rounds an unlimited greedy run accepts (reference used to aim max_iter at its boundary)"""
    seq = list(call['X'])
    k = 0
    while k < limit:
        b = py_best(call, seq)
        if b is None or py_loss(call, seq) - b[0] <= tol:
            break
        mo = call['motifs'][b[1]]
        seq[b[2]:b[2] + len(mo)] = mo
        k += 1
    return k


def magnitude_bound(call):
    """upper bound on the sum over all output units of (y - y_hat)^2, any sequence"""
    net = call['net']
    hb = [abs(b) + sum(max(abs(v) for v in col) for col in w) for w, b in zip(net['W1'], net['b1'])]
    tot = 0
    for w, b, t in zip(net['W2'], net['b2'], call['target']):
        o = net['scale'] * (sum(abs(a) * h for a, h in zip(w, hb)) + abs(b))
        tot += (o + abs(net['scale'] * t)) ** 2
    return tot


# ----------------------------------------------------------------------------------------
# the implementation side

class Net(torch.nn.Module):
    def __init__(self, net, dtype, T):
        super().__init__()
        f = lambda v: torch.nn.Parameter(torch.tensor(v, dtype=dtype), requires_grad=False)
        self.W1 = f(net['W1'])          # (H, L, A)
        self.b1 = f(net['b1'])
        self.W2 = f(net['W2'])          # (n*T, H)
        self.b2 = f(net['b2'])
        self.relu = bool(net['relu'])
        self.scale = float(net['scale'])
        self.T = T

    def forward(self, X):               # X: (N, A, L), cast to the parameters' dtype by predict
        z = torch.einsum('nal,hla->nh', X, self.W1) + self.b1
        h = torch.relu(z) if self.relu else z
        o = self.scale * (h @ self.W2.T + self.b2)
        return o.reshape(o.shape[0], -1, self.T) if self.T else o


def asym_loss(y, y_hat):
    return 2 * torch.relu(y - y_hat) + torch.relu(y_hat - y)


def loss_fn(kind):
    if kind == 'mse':
        return torch.nn.MSELoss(reduction='none')
    if kind == 'l1':
        return torch.nn.L1Loss(reduction='none')
    if kind == 'asym':
        return asym_loss
    return None


def x_tensor(call):
    A = call['A']
    X = torch.zeros(1, A, len(call['X']), dtype=DTYPES[form(call, 'x_dtype')])
    for p, k in enumerate(call['X']):
        if 0 <= k < A:
            X[0, k, p] = 1
    return X


def y_tensor(call):
    c = call['net']['scale']
    T = call.get('T')
    y = torch.tensor([[float(c * t) for t in call['target']]], dtype=DTYPES[form(call, 'y_dtype')])
    return y.reshape(1, -1, T) if T else y


def mask_obj(call):
    if call['mask'] is None:
        return None
    f = form(call, 'mask_form')
    if f == 'list':
        return list(call['mask'])
    if f == 'numpy':
        return numpy.array(call['mask'], dtype=bool)
    if f == 'index':
        return torch.tensor([j for j, m in enumerate(call['mask']) if m], dtype=torch.int64)
    return torch.tensor(call['mask'], dtype=torch.bool)


def motif_strings(call):
    al = alphabet_of(call)
    return [''.join(al[k] if 0 <= k < len(al) else 'N' for k in mo) for mo in call['motifs']]


def motifs_obj(call):
    s = motif_strings(call)
    f = form(call, 'motifs_form')
    return tuple(s) if f == 'tuple' else numpy.array(s) if f == 'numpy' else list(s)


def tol_obj(call):
    tol = Fraction(call['tol'][0], call['tol'][1])
    assert Fraction(float(tol)) == tol
    f = form(call, 'tol_form')
    if f == 'int':
        assert tol.denominator == 1
        return int(tol)
    if f == 'np64':
        return numpy.float64(float(tol))
    if f == 'np32':
        assert Fraction(float(numpy.float32(float(tol)))) == tol
        return numpy.float32(float(tol))
    if f == 'tensor':
        return torch.tensor(float(tol), dtype=torch.float64)
    return float(tol)


def same(a, b):
    if isinstance(a, torch.Tensor):
        return isinstance(b, torch.Tensor) and a.dtype == b.dtype and a.shape == b.shape and torch.equal(a, b)
    if isinstance(a, numpy.ndarray):
        return isinstance(b, numpy.ndarray) and a.dtype == b.dtype and a.shape == b.shape and bool((a == b).all())
    if isinstance(a, torch.nn.Module):
        sa, sb = a.state_dict(), b.state_dict()
        return (sa.keys() == sb.keys() and all(same(sa[k], sb[k]) for k in sa)
                and a.relu == b.relu and a.scale == b.scale and a.T == b.T)
    return type(a) == type(b) and a == b


class _Timeout(Exception):
    pass


def _alarm(signum, frame):
    raise _Timeout()


def _key(inp):
    return json.dumps({k: v for k, v in inp.items() if not k.startswith('_')}, sort_keys=True)


def from_tensor(Y):
    if not isinstance(Y, torch.Tensor):
        return 'malformed'
    Y = Y.detach().cpu()
    if Y.dim() != 3 or Y.shape[0] != 1 or not torch.equal(Y.double(), Y.double().round()):
        return 'malformed'
    return Y[0].T.to(torch.int64).tolist()


def check_exact(call):
    """trusted-base check, not a verdict: the float computation is exact on the starting sequence (on fresh
    objects - the caller's objects of the sequence may have been touched by the implementation)"""
    A = call['A']
    mk = torch.tensor(mask_of(call), dtype=torch.bool)
    if not mk.any() or not all(0 <= k < A for k in call['X']):
        return
    dt = DTYPES[form(call, 'net_dtype')]
    net, X, y = Net(call['net'], dt, call.get('T')), x_tensor(call), y_tensor(call)
    with torch.no_grad():
        lf = loss_fn(call['loss']) or torch.nn.MSELoss(reduction='none')
        l0 = lf(y[:, mk], net(X.to(dt))[:, mk]).mean()
    assert Fraction(float(l0)) == py_loss(call, call['X']), 'inexact float loss in harness net'


def run_call(call, pool):
    """one call of greedy_substitution; objects with equal contents are shared through `pool`"""
    from tangermeme.design import greedy_substitution
    used = []

    def obj(kind, key, make):
        k = (kind, json.dumps(key, sort_keys=True))
        if k not in pool:
            pool[k] = make()
        used.append((pool[k], make))
        return pool[k]

    T = call.get('T')
    al = alphabet_of(call)
    X = obj('X', [form(call, 'x_dtype'), call['A'], call['X']], lambda: x_tensor(call))
    y = obj('y', [form(call, 'y_dtype'), call['net']['scale'], call['target'], T], lambda: y_tensor(call))
    net = obj('net', [form(call, 'net_dtype'), call['net'], T],
              lambda: Net(call['net'], DTYPES[form(call, 'net_dtype')], T))
    kw = {}
    if call['mask'] is not None:
        kw['mask'] = obj('mask', [form(call, 'mask_form'), call['mask']], lambda: mask_obj(call))
    motifs = obj('motifs', [form(call, 'motifs_form'), motif_strings(call)], lambda: motifs_obj(call))
    af = form(call, 'alphabet_form')
    if af != 'default':
        kw['alphabet'] = obj('alphabet', [af, al], (lambda: al) if af == 'str' else (lambda: list(al)))
    else:
        assert al == 'ACGT'
    if form(call, 'tol_form') != 'default':
        kw['tol'] = tol_obj(call)
    else:
        assert Fraction(call['tol'][0], call['tol'][1]) == DEFAULT_TOL
    mf = form(call, 'max_form')
    if mf != 'default':
        kw['max_iter'] = {'np': numpy.int64, 'float': float}.get(mf, int)(call['max_iter'])
    else:
        assert call['max_iter'] == -1
    bf = form(call, 'bs_form')
    if bf != 'default':
        kw['batch_size'] = numpy.int64(call['batch_size']) if bf == 'np' else int(call['batch_size'])
    else:
        assert call['batch_size'] == 32
    if call['loss'] != 'default':
        kw['loss'] = loss_fn(call['loss'])
    if form(call, 'verbose'):
        kw['verbose'] = True
    if form(call, 'start') is not None:
        kw['start'] = form(call, 'start')
    check_exact(call)
    net.train(bool(form(call, 'train')))
    old = signal.signal(signal.SIGALRM, _alarm)
    # a non-terminating implementation would otherwise cost TIMEOUT_S per call: once two calls have
    # hung, later calls get 0.5 s (still ~50x a normal call), after ten 0.15 s; the limits only shrink once the
    # implementation has already hung, i.e. once a violation is certain
    signal.setitimer(signal.ITIMER_REAL, TIMEOUT_S if _timeouts[0] < 2 else (0.5 if _timeouts[0] < 10 else 0.15))
    try:
        with contextlib.redirect_stdout(io.StringIO()), contextlib.redirect_stderr(io.StringIO()):
            Y = greedy_substitution(net, X, motifs, y, device='cpu', **kw)
        out = {'ok': True, 'Y': from_tensor(Y)}
    except _Timeout:
        _timeouts[0] += 1
        out = {'ok': False, 'err': 'timeout'}
    except Exception as e:
        out = {'ok': False, 'err': type(e).__name__}
    finally:
        signal.setitimer(signal.ITIMER_REAL, 0)
        signal.signal(signal.SIGALRM, old)
    net.train(False)
    out['unchanged'] = all(same(o, make()) for o, make in used)
    return out


def _run_here(inp):
    pool = {}
    outs = [run_call(call, pool) for call in calls_of(inp)]
    return {'outs': outs, 'ok': all(o['ok'] for o in outs)}


# ---- process isolation.  This process never calls into tangermeme.  A pristine "zygote" child is forked
# first (no numba/torch worker threads, nothing of tangermeme ever called in it); the implementation runs in
# workers forked from the zygote, i.e. in processes whose tangermeme state is that of a fresh import:
#   * a call SEQUENCE runs in a worker of its own, so a sequence that fails does so by itself and its replay
#     reproduces; once shrinking has started every candidate gets a worker of its own too;
#   * the single calls of the main pass share one long-lived "warm" worker (fast; state leaking from one case
#     into the next still shows as a disagreement);
#   * a worker that dies (crash in native code, e.g. an out-of-bounds write of the numba kernel) counts as every
#     call of that case having raised, and the next case gets a new worker.

_zyg = {'pid': None, 'w': None, 'r': None, 'broken': False}
_isolate = [False]


def _read_exact(fd, n):
    buf = b''
    while len(buf) < n:
        b = os.read(fd, n - len(buf))
        if not b:
            return None
        buf += b
    return buf


def _write_all(fd, data):
    while data:
        k = os.write(fd, data)
        data = data[k:]


def _send(fd, obj):
    data = json.dumps(obj).encode()
    _write_all(fd, b'%012d' % len(data) + data)


def _recv(fd):
    try:
        h = _read_exact(fd, 12)
        if h is None:
            return None
        data = _read_exact(fd, int(h))
    except OSError:
        return None
    return None if data is None else json.loads(data)


def _worker_main(rfd, wfd):
    signal.signal(signal.SIGPIPE, signal.SIG_DFL)
    while True:
        req = _recv(rfd)
        if req is None:
            os._exit(0)
        try:
            _timeouts[0] = req['timeouts']
            payload = {'out': _run_here(req['inp']), 'timeouts': _timeouts[0]}
        except BaseException as e:
            payload = {'error': repr(e)}
        _send(wfd, payload)


def _spawn_worker(keep_closed):
    r1, w1 = os.pipe()          # zygote -> worker
    r2, w2 = os.pipe()          # worker -> zygote
    pid = os.fork()
    if pid == 0:
        try:
            os.close(w1)
            os.close(r2)
            for fd in keep_closed:
                try:
                    os.close(fd)
                except OSError:
                    pass
            _worker_main(r1, w2)
        finally:
            os._exit(0)
    os.close(r1)
    os.close(w2)
    return {'pid': pid, 'w': w1, 'r': r2}


def _retire(wk):
    for fd in (wk['w'], wk['r']):
        try:
            os.close(fd)
        except OSError:
            pass
    try:
        _, status = os.waitpid(wk['pid'], 0)
    except OSError:
        status = -1
    return status


def _zygote_main(rfd, wfd):
    signal.signal(signal.SIGPIPE, signal.SIG_IGN)
    try:
        import tangermeme.design          # import only: nothing of tangermeme is ever called in the zygote
    except Exception:
        pass
    warm = None
    while True:
        req = _recv(rfd)
        if req is None:
            if warm is not None:
                _retire(warm)
            os._exit(0)
        fresh = req.pop('fresh')
        if fresh or warm is None:
            wk = _spawn_worker([rfd, wfd] + ([warm['w'], warm['r']] if warm is not None else []))
        else:
            wk = warm
        try:
            _send(wk['w'], req)
            res = _recv(wk['r'])
        except OSError:
            res = None
        if res is None:                       # the worker died while running this case
            res = {'crash': _retire(wk)}
            if wk is warm:
                warm = None
        elif fresh:
            _retire(wk)
        else:
            warm = wk
        _send(wfd, res)


def _zygote():
    if _zyg['pid'] is None and not _zyg['broken']:
        try:
            pr, cw = os.pipe()          # zygote -> parent
            cr, pw = os.pipe()          # parent -> zygote
            pid = os.fork()
            if pid == 0:
                os.close(pr)
                os.close(pw)
                try:
                    _zygote_main(cr, cw)
                finally:
                    os._exit(0)
            os.close(cr)
            os.close(cw)
            _zyg.update(pid=pid, w=pw, r=pr)
        except OSError:
            _zyg['broken'] = True
    return _zyg


def _run_isolated(inp, fresh):
    z = _zygote()
    if z['broken'] or z['pid'] is None:
        return _run_here(inp)
    try:
        _send(z['w'], {'inp': inp, 'timeouts': _timeouts[0], 'fresh': bool(fresh)})
        res = _recv(z['r'])
    except OSError:
        res = None
    if res is None:
        z['broken'] = True
        return _run_here(inp)
    if 'error' in res:
        raise RuntimeError('harness error in worker: %s' % res['error'])
    if 'crash' in res:
        n = len(calls_of(inp))
        return {'outs': [{'ok': False, 'err': 'process died (status %s)' % res['crash'], 'unchanged': True}
                         for _ in range(n)], 'ok': False}
    _timeouts[0] = res['timeouts']
    return res['out']


def run_impl(inp):
    inp = {k: v for k, v in inp.items() if not k.startswith('_')}
    out = _run_isolated(inp, fresh=len(calls_of(inp)) > 1 or _isolate[0])
    if any(o.get('err') == 'timeout' for o in out['outs']):
        _hung.add(_key(inp))
    return out


# ----------------------------------------------------------------------------------------
# Coq literals

def dna_lit(A, seq):
    return C.lst([C.zlist(column(A, k)) for k in seq])


KIND = {'default': 0, 'mse': 0, 'l1': 1, 'asym': 2}


def call_lit(call, out):
    A = call['A']
    net = call['net']
    c = net['scale']
    netl = '(Net %s %s %s %s %s %s)' % (C.lst([C.zmat(w) for w in net['W1']]), C.zlist(net['b1']),
                                        C.boolean(net['relu']), C.zmat(net['W2']), C.zlist(net['b2']), C.z(c))
    fuel = call.get('fuel') or (call['max_iter'] + 1 if call['max_iter'] >= 0 else 48)
    cl = '(Call %s %s %s %s %s %s %s %s %s %s %s)' % (
        C.nat(A), dna_lit(A, call['X']), C.lst([dna_lit(A, mo) for mo in call['motifs']]), netl,
        C.zlist([c * t for t in call['target']]), C.lst([C.boolean(b) for b in unit_mask(call)]),
        C.nat(KIND[call['loss']]), C.z(call['tol'][0]), C.z(call['tol'][1]), C.z(call['max_iter']),
        C.nat(fuel))
    if out['ok'] and isinstance(out['Y'], list):
        o = '(Ok %s)' % C.lst([C.zlist(col) for col in out['Y']])
    elif out['ok']:
        o = '(Ok [[7]])'          # not a (1, A, L) integral tensor: certainly not the expected sequence
    else:
        o = 'Err'
    return '(%s, %s, %s)' % (cl, o, C.boolean(out.get('unchanged', True)))


def coq_case(inp, out):
    return C.lst([call_lit(c, o) for c, o in zip(calls_of(inp), out['outs'])])


def nontrivial(inp, out):
    return any(o['ok'] and o['Y'] != [column(c['A'], k) for k in c['X']]
               for c, o in zip(calls_of(inp), out['outs']))


def hist_key(inp, out):
    calls = calls_of(inp)
    s = inp.get('stream') or ('corpus' if '_corpus' in inp else 'single')
    if not out['ok']:
        return s + '/raise'
    if len(calls) > 1:
        return '%s/%d calls' % (s, len(calls))
    return '%s/%s/max_iter=%d' % (s, 'changed' if nontrivial(inp, out) else 'unchanged', calls[0]['max_iter'])


def tags(inp, out):
    return set()


# ----------------------------------------------------------------------------------------
# generators

def odd_part(n):
    while n % 2 == 0:
        n //= 2
    return n


def clone(x):
    return json.loads(json.dumps(x))


def rand_net(rng, A, L, n, H, wmax, density):
    W1 = [[[(rng.randint(-wmax, wmax) if rng.random() < density else 0) for _ in range(A)] for _ in range(L)]
          for _ in range(H)]
    b1 = [rng.randint(-1, 1) for _ in range(H)]
    W2 = [[rng.randint(-2, 2) for _ in range(H)] for _ in range(n)]
    for j in range(n):
        if not any(W2[j]):
            W2[j][rng.randrange(H)] = 1
    b2 = [rng.randint(-1, 1) for _ in range(n)]
    return {'W1': W1, 'b1': b1, 'relu': rng.random() < 0.6, 'W2': W2, 'b2': b2, 'scale': 1}


def rand_mask(rng, n):
    r = rng.random()
    if r < 0.3:
        return None
    if r < 0.36:
        return [True] * n                         # explicit all-True mask
    if r < 0.42:
        m = [False] * n                           # a single output
        m[rng.randrange(n)] = True
        return m
    m = [rng.random() < 0.6 for _ in range(n)]
    if not any(m):
        m[rng.randrange(n)] = True
    return m


TOLS = [(0, 1), (0, 1), (1, 8), (1, 4), (1, 2), (3, 4), (1, 1), (1, 1)]


def rescale(call):
    """scale = odd part of the number of masked output units, so that every mean is dyadic"""
    call['net']['scale'] = odd_part(sum(unit_mask(call)))


def rand_forms(rng, call, p=0.3):
    """input forms / dtypes / optional arguments of the API, each varied with probability p"""
    f = {}
    pick = lambda k, opts: f.__setitem__(k, rng.choice(opts)) if rng.random() < p else None
    pick('x_dtype', ['int8', 'int8', 'float64', 'int64'])
    pick('y_dtype', ['float32'])
    if magnitude_bound(call) < 2 ** 22:
        pick('net_dtype', ['float32'])
    if call['mask'] is not None:
        pick('mask_form', ['list', 'numpy', 'index'])
    tol = Fraction(call['tol'][0], call['tol'][1])
    opts = ['np64', 'tensor'] + (['int'] if tol.denominator == 1 else []) + \
           (['np32'] if tol.denominator <= 2 ** 20 and tol.numerator < 2 ** 20 else [])
    if tol == DEFAULT_TOL:
        f['tol_form'] = 'default' if rng.random() < 0.7 else 'float'
    else:
        pick('tol_form', opts)
    pick('max_form', ['np', 'float'] + (['default', 'default'] if call['max_iter'] == -1 else []))
    pick('motifs_form', ['tuple', 'numpy'])
    pick('alphabet_form', ['str'] + (['default', 'default'] if alphabet_of(call) == 'ACGT' else []))
    pick('bs_form', ['np'] + (['default', 'default'] if call['batch_size'] == 32 else []))
    if rng.random() < p / 3:
        f['verbose'] = True
    if rng.random() < p / 3:
        f['start'] = rng.randint(0, len(call['X']))
    if rng.random() < p / 2:
        f['train'] = True
    call['forms'] = f
    return call


def finish(rng, call, boundary=True, forms=True):
    """choose scale from the mask, the target from a reachable design, tol, max_iter, batch size, forms"""
    call['mask'] = call.get('mask', None)
    call['T'] = call.get('T')
    rescale(call)
    call['loss'] = call.get('loss') or rng.choice(['default', 'default', 'mse', 'l1', 'asym'])
    if 'target' not in call:
        # outputs of a sequence obtained by planting a few motifs: reachable, so rounds get accepted
        goal = list(call['X'])
        for _ in range(rng.randint(1, 3)):
            mo = rng.choice(call['motifs'])
            if len(mo) <= len(goal):
                p = rng.randint(0, len(goal) - len(mo))
                goal[p:p + len(mo)] = mo
        sc = call['net']['scale']
        call['target'] = [o // sc + (rng.choice([-1, 1]) if rng.random() < 0.15 else 0)
                          for o in py_forward(call['net'], goal)]
    call['max_iter'] = call.get('max_iter', rng.choice([-1, -1, 0, 1, 2, 3, 4]))
    call['batch_size'] = call.get('batch_size') or rng.choice([1, 2, 3, 5, 7, 16, 32, 32, 64])
    if 'tol' not in call:
        tol = rng.choice(TOLS)
        r = rng.random()
        if boundary and r < 0.35:
            # exactly the best improvement available in some round of the tol=0 run (or one notch
            # below / above): the "not above tol" boundary
            seq = list(call['X'])
            for _ in range(rng.randint(0, 2)):
                b = py_best(call, seq)
                if b is None or py_loss(call, seq) - b[0] <= 0:
                    break
                mo = call['motifs'][b[1]]
                seq[b[2]:b[2] + len(mo)] = mo
            b = py_best(call, seq)
            if b is not None:
                imp = py_loss(call, seq) - b[0]
                imp += rng.choice([0, 0, 0, Fraction(-1, 8), Fraction(1, 8)])
                if imp >= 0 and imp.denominator <= 64:
                    tol = (imp.numerator, imp.denominator)
        elif r < 0.43:
            tol = (DEFAULT_TOL.numerator, DEFAULT_TOL.denominator)       # the default tol = 1e-3
        call['tol'] = list(tol)
    if forms:
        rand_forms(rng, call)
    return call


def rand_alphabet(rng, A):
    al = list(LETTERS[:A])
    if rng.random() < 0.35:
        rng.shuffle(al)
    return ''.join(al)


def rand_call(rng, quick, small=False):
    A = rng.choice([4, 4, 4, 4, 4, 2, 3, 5])
    if small:
        L = rng.choice([8, 8, 9, 10, 12, 14])
    elif quick:
        L = rng.choice([8, 8, 9, 10, 11, 12, 14, 16, 20, 24, 31, 40])
    else:
        L = rng.choice([8, 8, 9] + list(range(8, 41)))
    k = rng.randint(1, 3 if small else 5)
    motifs = []
    for _ in range(k):
        m = rng.choice([1, 1, 2, 2, 3, 3, 4, 5, 6, 7, 8])
        motifs.append([rng.randrange(A) for _ in range(m)])
    if L == 8 and rng.random() < 0.5:
        motifs[rng.randrange(k)] = [rng.randrange(A) for _ in range(8)]      # full-length motif
    T = rng.choice([2, 3]) if rng.random() < 0.15 else None
    n = rng.randint(1, 4 if T else 8)
    H = rng.randint(1, 3)
    small_w = rng.random() < 0.5
    net = rand_net(rng, A, L, n * (T or 1), H, 1 if small_w else 3, rng.choice([0.15, 0.4, 0.8]))
    call = {'A': A, 'alphabet': rand_alphabet(rng, A), 'X': [rng.randrange(A) for _ in range(L)],
            'motifs': motifs, 'net': net, 'mask': rand_mask(rng, n), 'T': T}
    return finish(rng, call)


def last_position_call(rng):
    """the unique best placement of motif 0 is the last fitting position L - m"""
    A = 4
    L = rng.randint(8, 40)
    m = rng.randint(1, 8)
    mo = [rng.randrange(A) for _ in range(m)]
    X = [rng.randrange(A) for _ in range(L)]
    for j in range(m):                       # the window does not match anywhere yet
        X[L - m + j] = (mo[j] + 1 + rng.randrange(A - 1)) % A
    n = rng.randint(1, 4)
    H = rng.randint(1, 2)
    net = rand_net(rng, A, L, n, H, 1, 0.0)
    for j in range(m):                       # hidden unit 0 counts matches inside the last window
        net['W1'][0][L - m + j][mo[j]] = 1
    net['b1'] = [0] * H
    net['relu'] = rng.random() < 0.5
    net['W2'] = [[1] + [0] * (H - 1) for _ in range(n)]
    net['b2'] = [0] * n
    motifs = [mo] + [[rng.randrange(A) for _ in range(rng.randint(1, 8))] for _ in range(rng.randint(0, 3))]
    if rng.random() < 0.5:
        rng.shuffle(motifs)
    call = {'A': A, 'alphabet': rand_alphabet(rng, A), 'X': X, 'motifs': motifs, 'net': net,
            'mask': rand_mask(rng, n), 'target': [m] * n, 'max_iter': rng.choice([-1, 1, 2, 4])}
    return finish(rng, call, boundary=False)


def tol_band_call(rng):
    """small weights, power-of-two mask: improvements of 1/8 .. 1 are common, tol inside [0,1] bites"""
    A = 4
    L = rng.randint(8, 24)
    n = rng.choice([1, 2, 4, 8])
    H = rng.randint(1, 3)
    net = rand_net(rng, A, L, n, H, 1, rng.choice([0.1, 0.2, 0.4]))
    net['W2'] = [[rng.choice([0, 0, 1, -1]) for _ in range(H)] for _ in range(n)]
    for j in range(n):
        if not any(net['W2'][j]):
            net['W2'][j][rng.randrange(H)] = 1
    motifs = [[rng.randrange(A) for _ in range(rng.choice([1, 1, 2, 3]))] for _ in range(rng.randint(1, 4))]
    call = {'A': A, 'X': [rng.randrange(A) for _ in range(L)], 'motifs': motifs, 'net': net, 'mask': None,
            'loss': rng.choice(['l1', 'l1', 'asym', 'default', 'mse']), 'max_iter': rng.choice([-1, -1, 2, 4])}
    return finish(rng, call)


def boundary_call(rng, quick):
    """integer parameters at their boundaries: batch_size around the number of candidates, max_iter around the
    number of rounds an unlimited run accepts, motif lengths 1 / L-1 / L, L = 8 and 40"""
    call = rand_call(rng, quick, small=rng.random() < 0.6)
    L = len(call['X'])
    A = call['A']
    kind = rng.choice(['bs', 'bs', 'max', 'max', 'len'])
    if kind == 'len':
        call['motifs'][0] = [rng.randrange(A) for _ in range(rng.choice([1, min(8, L), min(8, L - 1)]))]
        kind = rng.choice(['bs', 'max'])
    tol = Fraction(call['tol'][0], call['tol'][1])
    if kind == 'bs':
        ncand = L - len(rng.choice(call['motifs'])) + 1
        call['batch_size'] = max(1, rng.choice([ncand, ncand - 1, ncand + 1, 1, L + 1]))
    else:
        k = py_rounds(call, tol)
        call['max_iter'] = max(0, rng.choice([k, k, k - 1, k + 1, 0, 1]))
    f = call.get('forms', {})
    if f.get('bs_form') == 'default' and call['batch_size'] != 32:
        f.pop('bs_form')
    if f.get('max_form') == 'default' and call['max_iter'] != -1:
        f.pop('max_form')
    return call


# ---- sequences: the same objects re-used, ONE thing changed per step

def v_repeat(rng, c):
    return c


def v_max_iter(rng, c):
    c['max_iter'] = rng.choice([x for x in (-1, 0, 1, 2, 3) if x != c['max_iter']])
    c.get('forms', {}).pop('max_form', None)
    return c


def v_tol(rng, c):
    c['tol'] = list(rng.choice([t for t in TOLS if list(t) != c['tol']]))
    c.get('forms', {}).pop('tol_form', None)
    return c


def v_mask(rng, c):
    T = c.get('T') or 1
    n = len(c['net']['W2']) // T
    old = sum(unit_mask(c))
    for _ in range(20):
        m = rand_mask(rng, n)
        c2 = dict(c, mask=m)
        # the scale is part of the network: keep it (same objects), so keep the odd part of the count
        if m != c['mask'] and odd_part(sum(unit_mask(c2))) == odd_part(old):
            c['mask'] = m
            break
    if c['mask'] is None:
        c.get('forms', {}).pop('mask_form', None)
    return c


def v_batch(rng, c):
    c['batch_size'] = rng.choice([x for x in (1, 2, 3, 5, 64) if x != c['batch_size']])
    c.get('forms', {}).pop('bs_form', None)
    return c


def v_alphabet(rng, c):
    """another letter order, the SAME motif strings and the same X tensor"""
    old = alphabet_of(c)
    al = list(old)
    for _ in range(10):
        rng.shuffle(al)
        if ''.join(al) != old:
            break
    new = ''.join(al)
    c['motifs'] = [[new.index(old[k]) for k in mo] for mo in c['motifs']]
    c['alphabet'] = new
    if c.get('forms', {}).get('alphabet_form') == 'default':
        c['forms'].pop('alphabet_form')
    return c


def v_smaller_alphabet(rng, c):
    """one letter fewer: every array gets another shape"""
    A = c['A']
    if A <= 2:
        return c
    old = alphabet_of(c)
    c['A'] = A - 1
    c['alphabet'] = old[:A - 1]
    c['X'] = [k % (A - 1) for k in c['X']]
    c['motifs'] = [[k % (A - 1) for k in mo] for mo in c['motifs']]
    c['net']['W1'] = [[col[:A - 1] for col in w] for w in c['net']['W1']]
    if c.get('forms', {}).get('alphabet_form') == 'default':
        c['forms'].pop('alphabet_form')
    return c


def v_x_dtype(rng, c):
    f = c.setdefault('forms', {})
    f['x_dtype'] = rng.choice([d for d in DTYPES if d != form(c, 'x_dtype')])
    return c


def v_net_dtype(rng, c):
    f = c.setdefault('forms', {})
    if form(c, 'net_dtype') == 'float32':
        f['net_dtype'] = 'float64'
    elif magnitude_bound(c) < 2 ** 22:
        f['net_dtype'] = 'float32'
    return c


def v_loss(rng, c):
    c['loss'] = rng.choice([k for k in ('default', 'l1', 'asym') if k != c['loss']])
    return c


def v_motif_order(rng, c):
    if len(c['motifs']) > 1:
        c['motifs'] = c['motifs'][1:] + c['motifs'][:1]
    else:
        c['motifs'] = c['motifs'] + [[rng.randrange(c['A'])]]
    return c


def v_x(rng, c):
    p = rng.randrange(len(c['X']))
    c['X'][p] = (c['X'][p] + 1) % c['A']
    return c


VARIANTS = [v_repeat, v_repeat, v_max_iter, v_tol, v_mask, v_batch, v_alphabet, v_alphabet, v_smaller_alphabet,
            v_x_dtype, v_net_dtype, v_loss, v_motif_order, v_x]


def sequence_case(rng, quick):
    base = rand_call(rng, quick, small=True)
    if rng.random() < 0.6:
        base['max_iter'] = rng.choice([1, 1, 2])          # so that a repeated call is not idempotent
        base.get('forms', {}).pop('max_form', None)
    calls = [base]
    cur = base
    for _ in range(rng.randint(1, 4)):
        v = rng.choice(VARIANTS)
        nxt = v(rng, clone(cur))
        calls.append(nxt)
        cur = nxt if rng.random() < 0.5 else base        # a chain of changes, or back to the first call
        if cur is base and rng.random() < 0.3:
            calls.append(clone(base))
    return {'calls': calls, 'stream': 'sequence'}


def wrap(call, stream):
    return {'calls': [call], 'stream': stream}


def generate(tier, rng):
    quick = tier != 'thorough'
    n_rand, n_last, n_tol, n_bnd, n_seq = (520, 100, 230, 160, 150) if quick else (4200, 800, 1800, 1300, 1100)
    for _ in range(n_seq):               # first: they run isolated, so a failing one is self-contained
        yield sequence_case(rng, quick)
    for _ in range(n_last):
        yield wrap(last_position_call(rng), 'last-position')
    for _ in range(n_tol):
        yield wrap(tol_band_call(rng), 'tol-band')
    for _ in range(n_bnd):
        yield wrap(boundary_call(rng, quick), 'boundary')
    for _ in range(n_rand):
        yield wrap(rand_call(rng, quick), 'random')


def search(rng, disagreeing):
    for _ in range(120):
        yield wrap(last_position_call(rng), 'last-position')
    for _ in range(200):
        yield wrap(tol_band_call(rng), 'tol-band')
    for _ in range(80):
        yield sequence_case(rng, True)


# ----------------------------------------------------------------------------------------
# shrinking

def _cut(call, lo, hi):
    """keep columns lo..hi-1"""
    c = dict(call)
    c['X'] = call['X'][lo:hi]
    c['net'] = dict(call['net'], W1=[w[lo:hi] for w in call['net']['W1']])
    return c


def shrink_call(call, hung):
    L = len(call['X'])
    longest = max([len(m) for m in call['motifs']] + [1])
    floor = max(longest, MIN_L)               # stay inside the property's range of lengths
    cands = []
    if len(call['motifs']) > 1:
        for i in range(len(call['motifs'])):
            cands.append(dict(call, motifs=call['motifs'][:i] + call['motifs'][i + 1:]))
    if L // 2 >= floor:
        cands.append(_cut(call, 0, L // 2))
        cands.append(_cut(call, L - L // 2, L))
    if L > floor:
        cands.append(_cut(call, 0, L - 1))
        cands.append(_cut(call, 1, L))
    if hung:                                  # every candidate may cost a timeout: try only a few
        for c in cands[:3]:
            yield c
        return
    for c in cands:
        yield c
    if call.get('forms'):
        yield dict(call, forms={})
        for k in call['forms']:
            yield dict(call, forms={a: b for a, b in call['forms'].items() if a != k})
    if call['max_iter'] > 1 or call['max_iter'] == -1:
        yield dict(call, max_iter=1)
        yield dict(call, max_iter=2)
    H = len(call['net']['W1'])
    if H > 1:
        for h in range(H):
            net = dict(call['net'])
            net['W1'] = net['W1'][:h] + net['W1'][h + 1:]
            net['b1'] = net['b1'][:h] + net['b1'][h + 1:]
            net['W2'] = [w[:h] + w[h + 1:] for w in net['W2']]
            yield dict(call, net=net)
    if not call.get('T'):
        n = len(call['net']['W2'])
        if n > 1:
            mk = mask_of(call)
            for j in range(n):
                if not mk[j]:                 # an unmasked output can go without changing the mean
                    net = dict(call['net'])
                    net['W2'] = net['W2'][:j] + net['W2'][j + 1:]
                    net['b2'] = net['b2'][:j] + net['b2'][j + 1:]
                    yield dict(call, net=net, target=call['target'][:j] + call['target'][j + 1:],
                               mask=mk[:j] + mk[j + 1:])
    if call['batch_size'] != 32:
        yield dict(call, batch_size=32)
    if call['tol'] != [0, 1] and form(call, 'tol_form') != 'default':
        yield dict(call, tol=[0, 1])
    for i, mo in enumerate(call['motifs']):
        if len(mo) > 1:
            yield dict(call, motifs=call['motifs'][:i] + [mo[:-1]] + call['motifs'][i + 1:])


def _consistent(call):
    """forms that only exist for particular values must go when the value is shrunk away"""
    f = dict(call.get('forms', {}))
    if f.get('max_form') == 'default' and call['max_iter'] != -1:
        f.pop('max_form')
    if f.get('bs_form') == 'default' and call['batch_size'] != 32:
        f.pop('bs_form')
    tol = Fraction(call['tol'][0], call['tol'][1])
    if f.get('tol_form') == 'int' and tol.denominator != 1:
        f.pop('tol_form')
    if f.get('tol_form') == 'default' and tol != DEFAULT_TOL:
        f.pop('tol_form')
    if call['mask'] is None:
        f.pop('mask_form', None)
    return dict(call, forms=f)


def shrink(inp):
    _isolate[0] = True              # from here on every run is isolated: the minimised case must fail by itself
    calls = calls_of(inp)
    hung = _key(inp) in _hung
    meta = {k: v for k, v in inp.items() if k in ('stream',)}
    if len(calls) > 1:
        for i in range(len(calls)):
            yield dict(meta, calls=calls[:i] + calls[i + 1:])
        if hung:
            return
        for i, c in enumerate(calls):
            if c.get('forms'):
                yield dict(meta, calls=calls[:i] + [dict(c, forms={})] + calls[i + 1:])
        return
    for c in shrink_call(calls[0], hung):
        yield dict(meta, calls=[_consistent(c)])
