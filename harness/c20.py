"""C20 - design.greedy_substitution: correspondence with coq/C20 (model + brute-force spec).

The torch module handed to greedy_substitution is a two-layer network with integer weights
in float64 whose outputs are multiples of `scale`; target, mask and loss are chosen so that
every loss value the implementation computes (a mean over the masked outputs) is a dyadic
rational with a handful of bits, hence exact in float64.  The same weights are printed into
the Coq case, where model and spec evaluate the same loss in Z.
"""
import json
import os
import signal
from fractions import Fraction

# _fast_tile_substitute is a numba prange kernel over <= 41 rows: a full-size thread pool only adds
# spin-wait contention (measured 30x slower on a loaded 16-core host); must be set before numba loads
os.environ.setdefault('NUMBA_NUM_THREADS', '2')

import torch

from . import common as C

PID = 'C20'
COQ_DIRS = ['C01', 'C20']                 # C20 reuses C01's model of ersatz.substitute and its lemmas
IMPORTS = ['Base.OneHot', 'C01.Model', 'C20.Model', 'C20.Spec']
CASE_TYPE = 'case'
CHECK = 'check_case'
SHARD = 40
RULE = ('seeded random calls: exact integer two-layer position-sensitive networks (1-3 hidden units, relu or '
        'linear, 1-8 outputs), sequences of length 8-40 over alphabets of 2-5 letters (mostly ACGT), 1-5 motifs '
        'of length 1-8 (incl. full-length motifs at L=8 and directed cases whose unique best placement is the '
        'last fitting position L-m), masks over the outputs or the default mask, default / MSE / L1 loss, '
        'max_iter in {-1,0,1,2,3,4}, tol a dyadic rational in [0,1] or exactly the best first-round improvement '
        '(boundary), batch sizes 1-64; compared: the returned sequence (the accepted (motif, position) rounds are '
        'derived from the model run); non-trivial = the returned sequence differs from the start, i.e. at least '
        'one accepted round')
EXHAUSTIVE = {'quick': False, 'thorough': False}
TRUSTED = ['the exact-arithmetic torch module (harness/c20.py Net) and the printing of its weights into the Coq case',
           'float64 evaluates the generated losses exactly (checked per case on the starting sequence against Fractions)']
ASSUMPTIONS = ['loss is a deterministic function of one sequence: predict acts example-wise in eval mode '
               '(exercised with batch sizes 1-64)',
               'torch.argmin returns the first minimiser on exact ties',
               'out-of-fuel: the model and the spec explore at most cfuel rounds (48 for max_iter=-1); '
               'Proofs.greedy_terminates states the fuel that always suffices']
LETTERS = 'ACGTXY'
MIN_L = 8
TIMEOUT_S = 10          # a normal call takes milliseconds; a call that does not return counts as raised
_timeouts = [0]
_hung = set()            # inputs (as JSON) on which the implementation did not return


# ----------------------------------------------------------------------------------------
# exact reference of the network + loss (used for generating inputs and for the float check)

def column(A, k):
    c = [0] * A
    if 0 <= k < A:
        c[k] = 1
    return c


def py_forward(net, seq):
    """seq: list of letter codes; returns the list of outputs (ints)."""
    hs = []
    for w, b in zip(net['W1'], net['b1']):
        z = b + sum(w[p][k] for p, k in enumerate(seq) if 0 <= k < len(w[p]))
        hs.append(max(0, z) if net['relu'] else z)
    return [net['scale'] * (sum(a * h for a, h in zip(w, hs)) + b) for w, b in zip(net['W2'], net['b2'])]


def mask_of(inp):
    n = len(inp['net']['W2'])
    return inp['mask'] if inp['mask'] is not None else [True] * n


def py_loss(inp, seq):
    """exact mean loss over the masked outputs"""
    out = py_forward(inp['net'], seq)
    mk = mask_of(inp)
    tot = 0
    for t, o, m in zip(inp['target'], out, mk):
        if m:
            d = inp['net']['scale'] * t - o
            tot += abs(d) if inp['loss'] == 'l1' else d * d
    return Fraction(tot, sum(1 for m in mk if m))


def py_best(inp, seq):
    """(best loss, motif idx, pos) over every fitting single substitution; None if none fits"""
    best = None
    for i, mo in enumerate(inp['motifs']):
        for p in range(len(seq) - len(mo) + 1):
            s = seq[:p] + mo + seq[p + len(mo):]
            l = py_loss(inp, s)
            if best is None or l < best[0]:
                best = (l, i, p)
    return best


# ----------------------------------------------------------------------------------------
# the implementation side

class Net(torch.nn.Module):
    def __init__(self, net):
        super().__init__()
        f = lambda v: torch.nn.Parameter(torch.tensor(v, dtype=torch.float64), requires_grad=False)
        self.W1 = f(net['W1'])          # (H, L, A)
        self.b1 = f(net['b1'])
        self.W2 = f(net['W2'])          # (n, H)
        self.b2 = f(net['b2'])
        self.relu = bool(net['relu'])
        self.scale = float(net['scale'])

    def forward(self, X):               # X: (N, A, L), cast to float64 by predict
        z = torch.einsum('nal,hla->nh', X, self.W1) + self.b1
        h = torch.relu(z) if self.relu else z
        return self.scale * (h @ self.W2.T + self.b2)


def to_tensor(A, seq):
    X = torch.zeros(1, A, len(seq), dtype=torch.float32)
    for p, k in enumerate(seq):
        if 0 <= k < A:
            X[0, k, p] = 1
    return X


def from_tensor(Y):
    Y = Y.detach().cpu()
    if Y.dim() != 3 or Y.shape[0] != 1 or not torch.equal(Y, Y.round()):
        return 'malformed'
    return Y[0].T.to(torch.int64).tolist()


def _key(inp):
    return json.dumps({k: v for k, v in inp.items() if not k.startswith('_')}, sort_keys=True)


class _Timeout(Exception):
    pass


def _alarm(signum, frame):
    raise _Timeout()


def loss_fn(kind):
    if kind == 'mse':
        return torch.nn.MSELoss(reduction='none')
    if kind == 'l1':
        return torch.nn.L1Loss(reduction='none')
    return None


def run_impl(inp):
    from tangermeme.design import greedy_substitution
    A = inp['A']
    alphabet = list(LETTERS[:A])
    X = to_tensor(A, inp['X'])
    net = Net(inp['net'])
    c = inp['net']['scale']
    y = torch.tensor([[float(c * t) for t in inp['target']]], dtype=torch.float64)
    mask = None if inp['mask'] is None else torch.tensor(inp['mask'], dtype=torch.bool)
    motifs = [''.join(LETTERS[k] if 0 <= k < len(LETTERS) else 'N' for k in mo) for mo in inp['motifs']]
    tol = Fraction(inp['tol'][0], inp['tol'][1])
    assert Fraction(float(tol)) == tol
    kw = {}
    if inp['loss'] != 'default':
        kw['loss'] = loss_fn(inp['loss'])
    # the float computation must be exact on these inputs (trusted-base check, not a verdict)
    with torch.no_grad():
        lf = loss_fn(inp['loss']) or torch.nn.MSELoss(reduction='none')
        mk = torch.tensor(mask_of(inp), dtype=torch.bool)
        l0 = lf(y[:, mk], net(X.double())[:, mk]).mean()
        if mk.any() and all(0 <= k < A for k in inp['X']):
            assert Fraction(float(l0)) == py_loss(inp, inp['X']), 'inexact float loss in harness net'
    old = signal.signal(signal.SIGALRM, _alarm)
    # a non-terminating implementation would otherwise cost TIMEOUT_S per case: once two calls have
    # hung, later calls get 0.5 s (still ~50x a normal call), after ten 0.15 s; the limits only shrink once the
    # implementation has already hung, i.e. once a violation is certain
    signal.setitimer(signal.ITIMER_REAL, TIMEOUT_S if _timeouts[0] < 2 else (0.5 if _timeouts[0] < 10 else 0.15))
    try:
        Y = greedy_substitution(net, X, motifs, y, mask=mask, tol=float(tol), max_iter=inp['max_iter'],
                                alphabet=alphabet, batch_size=inp['batch_size'], device='cpu', **kw)
        out = {'ok': True, 'Y': from_tensor(Y)}
    except _Timeout:
        _timeouts[0] += 1
        _hung.add(_key(inp))
        out = {'ok': False, 'err': 'timeout'}
    except Exception as e:
        out = {'ok': False, 'err': type(e).__name__}
    finally:
        signal.setitimer(signal.ITIMER_REAL, 0)
        signal.signal(signal.SIGALRM, old)
    return out


# ----------------------------------------------------------------------------------------
# Coq literals

def dna_lit(A, seq):
    return C.lst([C.zlist(column(A, k)) for k in seq])


def coq_case(inp, out):
    A = inp['A']
    net = inp['net']
    c = net['scale']
    netl = '(Net %s %s %s %s %s %s)' % (C.lst([C.zmat(w) for w in net['W1']]), C.zlist(net['b1']),
                                        C.boolean(net['relu']), C.zmat(net['W2']), C.zlist(net['b2']), C.z(c))
    fuel = inp.get('fuel') or (inp['max_iter'] + 1 if inp['max_iter'] >= 0 else 48)
    call = '(Call %s %s %s %s %s %s %s %s %s %s %s)' % (
        C.nat(A), dna_lit(A, inp['X']), C.lst([dna_lit(A, mo) for mo in inp['motifs']]), netl,
        C.zlist([c * t for t in inp['target']]), C.lst([C.boolean(b) for b in mask_of(inp)]),
        C.boolean(inp['loss'] == 'l1'), C.z(inp['tol'][0]), C.z(inp['tol'][1]), C.z(inp['max_iter']),
        C.nat(fuel))
    if out['ok'] and isinstance(out['Y'], list):
        o = '(Ok %s)' % C.lst([C.zlist(col) for col in out['Y']])
    elif out['ok']:
        o = '(Ok [[7]])'          # not a (1, A, L) integral tensor: certainly not the expected sequence
    else:
        o = 'Err'
    return '(%s, %s)' % (call, o)


def nontrivial(inp, out):
    return bool(out['ok']) and out['Y'] != [column(inp['A'], k) for k in inp['X']]


def hist_key(inp, out):
    if not out['ok']:
        return 'raise'
    return '%s/max_iter=%d/%s' % ('changed' if nontrivial(inp, out) else 'unchanged', inp['max_iter'], inp['loss'])


def tags(inp, out):
    return set()


# ----------------------------------------------------------------------------------------
# generators

def odd_part(n):
    while n % 2 == 0:
        n //= 2
    return n


def rand_net(rng, A, L, n, H, wmax, density):
    W1 = [[[(rng.randint(-wmax, wmax) if rng.random() < density else 0) for _ in range(A)] for _ in range(L)]
          for _ in range(H)]
    b1 = [rng.randint(-1, 1) for _ in range(H)]
    W2 = [[rng.randint(-2, 2) for _ in range(H)] for _ in range(n)]
    for j in range(n):
        if not any(W2[j]):
            W2[j][rng.randrange(H)] = 1
    b2 = [rng.randint(-1, 1) for _ in range(n)]
    return {'W1': W1, 'b1': b1, 'relu': rng.random() < 0.6, 'W2': W2, 'b2': b2, 'scale': 1}


def rand_mask(rng, n):
    if rng.random() < 0.3:
        return None
    m = [rng.random() < 0.6 for _ in range(n)]
    if not any(m):
        m[rng.randrange(n)] = True
    return m


TOLS = [(0, 1), (0, 1), (1, 8), (1, 4), (1, 2), (3, 4), (1, 1), (1, 1)]


def finish(rng, inp, boundary=True):
    """choose scale from the mask, the target from a reachable design, tol, max_iter, batch size"""
    n = len(inp['net']['W2'])
    inp['mask'] = inp.get('mask', None)
    nm = sum(mask_of(inp))
    inp['net']['scale'] = odd_part(nm)
    inp['loss'] = inp.get('loss') or rng.choice(['default', 'mse', 'l1'])
    if 'target' not in inp:
        # outputs of a sequence obtained by planting a few motifs: reachable, so rounds get accepted
        goal = list(inp['X'])
        for _ in range(rng.randint(1, 3)):
            mo = rng.choice(inp['motifs'])
            if len(mo) <= len(goal):
                p = rng.randint(0, len(goal) - len(mo))
                goal[p:p + len(mo)] = mo
        sc = inp['net']['scale']
        inp['target'] = [o // sc + (rng.choice([-1, 1]) if rng.random() < 0.15 else 0)
                         for o in py_forward(inp['net'], goal)]
    inp['max_iter'] = inp.get('max_iter', rng.choice([-1, -1, 0, 1, 2, 3, 4]))
    inp['batch_size'] = rng.choice([1, 2, 3, 5, 7, 16, 32, 64])
    if 'tol' not in inp:
        tol = rng.choice(TOLS)
        r = rng.random()
        if boundary and r < 0.35:
            # exactly the best improvement available in some round of the tol=0 run (or one notch
            # below / above): the "not above tol" boundary
            seq = list(inp['X'])
            for _ in range(rng.randint(0, 2)):
                b = py_best(inp, seq)
                if b is None or py_loss(inp, seq) - b[0] <= 0:
                    break
                mo = inp['motifs'][b[1]]
                seq[b[2]:b[2] + len(mo)] = mo
            b = py_best(inp, seq)
            if b is not None:
                imp = py_loss(inp, seq) - b[0]
                imp += rng.choice([0, 0, 0, Fraction(-1, 8), Fraction(1, 8)])
                if imp >= 0 and imp.denominator <= 64:
                    tol = (imp.numerator, imp.denominator)
        inp['tol'] = list(tol)
    return inp


def rand_case(rng, quick):
    A = rng.choice([4, 4, 4, 4, 4, 2, 3, 5])
    if quick:
        L = rng.choice([8, 8, 9, 10, 11, 12, 14, 16, 20, 24, 31, 40])
    else:
        L = rng.choice([8, 8, 9] + list(range(8, 41)))
    k = rng.randint(1, 5)
    motifs = []
    for _ in range(k):
        m = rng.choice([1, 1, 2, 2, 3, 3, 4, 5, 6, 7, 8])
        motifs.append([rng.randrange(A) for _ in range(m)])
    if L == 8 and rng.random() < 0.5:
        motifs[rng.randrange(k)] = [rng.randrange(A) for _ in range(8)]      # full-length motif
    n = rng.randint(1, 8)
    H = rng.randint(1, 3)
    small = rng.random() < 0.5
    net = rand_net(rng, A, L, n, H, 1 if small else 3, rng.choice([0.15, 0.4, 0.8]))
    inp = {'A': A, 'X': [rng.randrange(A) for _ in range(L)], 'motifs': motifs, 'net': net,
           'mask': rand_mask(rng, n)}
    return finish(rng, inp)


def last_position_case(rng):
    """the unique best placement of motif 0 is the last fitting position L - m"""
    A = 4
    L = rng.randint(8, 40)
    m = rng.randint(1, 8)
    mo = [rng.randrange(A) for _ in range(m)]
    X = [rng.randrange(A) for _ in range(L)]
    for j in range(m):                       # the window does not match anywhere yet
        X[L - m + j] = (mo[j] + 1 + rng.randrange(A - 1)) % A
    n = rng.randint(1, 4)
    H = rng.randint(1, 2)
    net = rand_net(rng, A, L, n, H, 1, 0.0)
    for j in range(m):                       # hidden unit 0 counts matches inside the last window
        net['W1'][0][L - m + j][mo[j]] = 1
    net['b1'] = [0] * H
    net['relu'] = rng.random() < 0.5
    net['W2'] = [[1] + [0] * (H - 1) for _ in range(n)]
    net['b2'] = [0] * n
    motifs = [mo] + [[rng.randrange(A) for _ in range(rng.randint(1, 8))] for _ in range(rng.randint(0, 3))]
    if rng.random() < 0.5:
        rng.shuffle(motifs)
    inp = {'A': A, 'X': X, 'motifs': motifs, 'net': net, 'mask': rand_mask(rng, n), 'target': [m] * n,
           'max_iter': rng.choice([-1, 1, 2, 4])}
    return finish(rng, inp, boundary=False)


def tol_band_case(rng):
    """small weights, power-of-two mask: improvements of 1/8 .. 1 are common, tol inside [0,1] bites"""
    A = 4
    L = rng.randint(8, 24)
    n = rng.choice([1, 2, 4, 8])
    H = rng.randint(1, 3)
    net = rand_net(rng, A, L, n, H, 1, rng.choice([0.1, 0.2, 0.4]))
    net['W2'] = [[rng.choice([0, 0, 1, -1]) for _ in range(H)] for _ in range(n)]
    for j in range(n):
        if not any(net['W2'][j]):
            net['W2'][j][rng.randrange(H)] = 1
    motifs = [[rng.randrange(A) for _ in range(rng.choice([1, 1, 2, 3]))] for _ in range(rng.randint(1, 4))]
    inp = {'A': A, 'X': [rng.randrange(A) for _ in range(L)], 'motifs': motifs, 'net': net, 'mask': None,
           'loss': rng.choice(['l1', 'l1', 'default', 'mse']), 'max_iter': rng.choice([-1, -1, 2, 4])}
    return finish(rng, inp)


def generate(tier, rng):
    quick = tier != 'thorough'
    n_rand, n_last, n_tol = (1000, 150, 350) if quick else (8000, 1000, 3000)
    for _ in range(n_last):
        yield last_position_case(rng)
    for _ in range(n_tol):
        yield tol_band_case(rng)
    for _ in range(n_rand):
        yield rand_case(rng, quick)


def search(rng, disagreeing):
    for _ in range(150):
        yield last_position_case(rng)
    for _ in range(250):
        yield tol_band_case(rng)


# ----------------------------------------------------------------------------------------
# shrinking

def _cut(inp, lo, hi):
    """keep columns lo..hi-1"""
    c = dict(inp)
    c['X'] = inp['X'][lo:hi]
    c['net'] = dict(inp['net'], W1=[w[lo:hi] for w in inp['net']['W1']])
    return c


def shrink(inp):
    inp = {k: v for k, v in inp.items() if not k.startswith('_')}
    L = len(inp['X'])
    longest = max([len(m) for m in inp['motifs']] + [1])
    floor = max(longest, MIN_L)               # stay inside the property's range of lengths
    cands = []
    if len(inp['motifs']) > 1:
        for i in range(len(inp['motifs'])):
            cands.append(dict(inp, motifs=inp['motifs'][:i] + inp['motifs'][i + 1:]))
    if L // 2 >= floor:
        cands.append(_cut(inp, 0, L // 2))
        cands.append(_cut(inp, L - L // 2, L))
    if L > floor:
        cands.append(_cut(inp, 0, L - 1))
        cands.append(_cut(inp, 1, L))
    if _key(inp) in _hung:                    # every candidate may cost a timeout: try only a few
        for c in cands[:3]:
            yield c
        return
    for c in cands:
        yield c
    if inp['max_iter'] > 1 or inp['max_iter'] == -1:
        yield dict(inp, max_iter=1)
        yield dict(inp, max_iter=2)
    H = len(inp['net']['W1'])
    if H > 1:
        for h in range(H):
            net = dict(inp['net'])
            net['W1'] = net['W1'][:h] + net['W1'][h + 1:]
            net['b1'] = net['b1'][:h] + net['b1'][h + 1:]
            net['W2'] = [w[:h] + w[h + 1:] for w in net['W2']]
            yield dict(inp, net=net)
    n = len(inp['net']['W2'])
    if n > 1:
        mk = mask_of(inp)
        for j in range(n):
            if not mk[j]:                     # an unmasked output can go without changing the mean
                net = dict(inp['net'])
                net['W2'] = net['W2'][:j] + net['W2'][j + 1:]
                net['b2'] = net['b2'][:j] + net['b2'][j + 1:]
                yield dict(inp, net=net, target=inp['target'][:j] + inp['target'][j + 1:],
                           mask=mk[:j] + mk[j + 1:])
    if inp['batch_size'] != 32:
        yield dict(inp, batch_size=32)
    if inp['tol'] != [0, 1]:
        yield dict(inp, tol=[0, 1])
    for i, mo in enumerate(inp['motifs']):
        if len(mo) > 1:
            yield dict(inp, motifs=inp['motifs'][:i] + [mo[:-1]] + inp['motifs'][i + 1:])
