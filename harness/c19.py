"""C19 - seqlet callers: correspondence with coq/C19 (extraction model + row-wise spec).

recursive_seqlets: the per-example p-value matrix and cumulative sum are captured from the
CURRENT source of `_recursive_seqlets`: its py_func source is re-parsed with `ast` on every
run, a call `__c19_capture__(i, p_value.copy(), X_csum[i].copy())` is inserted just before
the extraction loop inside the per-example loop, and the result is executed as plain Python.
If the source no longer has the expected shape the split fails closed (broken tie).
The captured matrices (floats -> exact scaled integers) are what Coq's `extract` runs on.

tfmodisco_seqlets: the window-score tensor handed to `_iterative_extract_seqlets` is
captured by wrapping that module-level function for the duration of the call.
"""
import ast
import contextlib
import math
import inspect
import signal
import textwrap

import numpy
import torch

from . import common as C

PID = 'C19'
IMPORTS = ['C19.Model', 'C19.Spec']
CASE_TYPE = 'case'
CHECK = 'check_case'
SHARD = 6
RULE = ('seeded random attribution tracks: 1-6 examples, length 40-600, gaussian noise + 0-10 planted '
        'positive/negative bumps (40% adjacent to position 0/1 or to the end); recursive_seqlets with threshold '
        '0.001-0.2, min/max lengths 1-30, additional_flanks 0-5, as numpy array or torch tensor, float64 / float32 / '
        'int64, C / Fortran / column-strided / row-strided memory, Python / numpy.int64+float64 / numpy.int32+float32 '
        'parameters, positional / keyword / all-default calls; tfmodisco_seqlets (float32 tensors) with window 1-25 '
        '(even and odd, window = l, l-1), flank 0-12 and flanks masking every window, target_fdr 0.05-0.3 or default, '
        'min/max_passing_frac and weak threshold varied, numpy integer parameters, strided views, all-default calls; '
        'boundary streams for every integer parameter; multi-call sequences in one process (same object with one '
        'parameter changed, another tensor of the same shape with the same parameters, the other caller on the same '
        'tensor) where the LAST call is observed; tracks on which the statistical front end of recursive_seqlets '
        'must raise (no positive or no non-positive window sum for some length) are re-drawn; non-trivial = returned '
        'table with >= 1 seqlet within `flanks` of an edge of its example')
TRUSTED = ['ast split of _recursive_seqlets.py_func (inserts one capture call, otherwise executes the current source as plain Python)',
           'wrapper around seqlet._iterative_extract_seqlets that clones its X_sum argument',
           'exact float -> scaled integer conversion (float.as_integer_ratio, one power-of-two scale per call for '
           'attribution-like values and one for p-value-like values)',
           'pandas DataFrame construction / sort_values (sortedness and multiset equality with the kernel rows are checked)']
ASSUMPTIONS = ['float rounding is not modelled: attribution = input sum is demanded up to the stated cumulative-sum '
               'rounding bound (Spec.v: close), exact in the theorems',
               'the statistical front end producing the p-value matrix / window scores is not verified; the matrices '
               'are captured and the theorems\' shape hypotheses (shape_ok, masked) are evaluated on every captured matrix',
               'aliasing ("input tensor not modified") is observed by the harness, not modelled']

# ----------------------------------------------------------------------------------------
# runtime split of _recursive_seqlets

_SPLIT = {}


class SplitError(Exception):
    pass


def _is_range_loop(node, var, arg):
    return (isinstance(node, ast.For) and isinstance(node.target, ast.Name) and node.target.id == var
            and isinstance(node.iter, ast.Call) and isinstance(node.iter.func, ast.Name)
            and node.iter.func.id == 'range' and len(node.iter.args) == 1
            and isinstance(node.iter.args[0], ast.Name) and node.iter.args[0].id == arg)


def _has(node, kind):
    return any(isinstance(x, kind) for x in ast.walk(node))


def _names(node):
    return {x.id for x in ast.walk(node) if isinstance(x, ast.Name)}


def split_kernel():
    """Returns a callable f(X, thr, min, max, flanks, capture) running the current source of
    _recursive_seqlets as plain Python with the capture inserted."""
    from tangermeme import seqlet
    key = id(seqlet._recursive_seqlets)
    if key in _SPLIT:
        return _SPLIT[key]
    py = getattr(seqlet._recursive_seqlets, 'py_func', None)
    if py is None:
        raise SplitError('_recursive_seqlets has no py_func (not a numba dispatcher any more)')
    src = textwrap.dedent(inspect.getsource(py))
    tree = ast.parse(src)
    if len(tree.body) != 1 or not isinstance(tree.body[0], ast.FunctionDef):
        raise SplitError('source of _recursive_seqlets is not one function definition')
    fn = tree.body[0]
    fn.decorator_list = []
    argnames = [a.arg for a in fn.args.args]
    if argnames != ['X', 'threshold', 'min_seqlet_len', 'max_seqlet_len', 'additional_flanks']:
        raise SplitError('unexpected signature %r' % (argnames,))
    top = fn.body
    assigned = {}
    for k, st in enumerate(top):
        if isinstance(st, ast.Assign) and len(st.targets) == 1 and isinstance(st.targets[0], ast.Name):
            assigned.setdefault(st.targets[0].id, k)
    if 'p_value' not in assigned or 'X_csum' not in assigned:
        raise SplitError('p_value / X_csum are not assigned at the top level of the function')
    loops = [k for k, st in enumerate(top) if k > assigned['p_value'] and _is_range_loop(st, 'i', 'n')]
    if len(loops) != 1:
        raise SplitError('expected exactly one "for i in range(n)" loop after the p_value allocation, found %d' % len(loops))
    per_example = top[loops[0]]
    body = per_example.body
    if len(body) < 2:
        raise SplitError('per-example loop has no separate scoring and extraction parts')
    extraction, scoring = body[-1], body[:-1]
    if not (isinstance(extraction, ast.For) and _has(extraction, ast.While)
            and 'p_value' in _names(extraction) and 'seqlets' in _names(extraction)):
        raise SplitError('last statement of the per-example loop is not the extraction loop')
    for st in scoring:
        if not isinstance(st, ast.For) or _has(st, ast.While) or 'seqlets' in _names(st):
            raise SplitError('statements before the extraction loop are not pure scoring loops')
    if any('seqlets' in _names(st) and _has(st, ast.While) for k, st in enumerate(top) if k != loops[0]):
        raise SplitError('another extraction loop exists outside the per-example loop')
    cap = ast.parse('__c19_capture__(i, p_value.copy(), X_csum[i].copy())').body[0]
    per_example.body = scoring + [cap, extraction]
    ast.fix_missing_locations(tree)
    ns = dict(vars(seqlet))
    holder = {}
    ns['__c19_capture__'] = lambda i, pm, cs: holder['cb'](i, pm, cs)
    exec(compile(tree, '<c19 split of _recursive_seqlets>', 'exec'), ns)
    kernel = ns[fn.name]

    def run(X, thr, mn, mx, fl, capture):
        holder['cb'] = capture
        return kernel(X, thr, mn, mx, fl)

    _SPLIT[key] = run
    return run


def prebuild():
    split_kernel()
    return {'split': 'ok'}


# ----------------------------------------------------------------------------------------
# a changed implementation may loop forever (both extraction loops end only because a cell is
# overwritten each round); the pure-Python runs are interrupted by SIGALRM

class ImplTimeout(Exception):
    pass


@contextlib.contextmanager
def time_limit(seconds):
    def handler(signum, frame):
        raise ImplTimeout()
    try:
        old = signal.signal(signal.SIGALRM, handler)
    except ValueError:          # not the main thread: no limit
        yield
        return
    signal.alarm(seconds)
    try:
        yield
    finally:
        signal.alarm(0)
        signal.signal(signal.SIGALRM, old)


_TIMEOUTS = [0]
PY_LIMIT = 60      # seconds for one instrumented pure-Python kernel run (normally < 3 s)
TF_LIMIT = 20       # seconds for one tfmodisco_seqlets call (normally < 1 s)

# ----------------------------------------------------------------------------------------
# inputs

def make_track(inp):
    """float64 numpy array (n, l) defined by the input description."""
    if 'X' in inp:
        X = numpy.array(inp['X'], dtype=numpy.float64)
    else:
        rs = numpy.random.RandomState(inp['seed'])
        X = rs.randn(inp['n'], inp['l']) * inp.get('noise', 1.0)
    for i, pos, w, amp in inp.get('bumps', []):
        if i < X.shape[0]:
            X[i, max(pos, 0):max(pos + w, 0)] += amp
    if inp.get('grid'):
        # values on a grid of 2^-grid * noise: short literals for coqc (and exact cumulative sums);
        # the other tracks keep full-precision floats
        q = 2.0 ** inp['grid'] / inp.get('noise', 1.0)
        X = numpy.round(X * q) / q
    return X


def front_end_must_raise(X, mn, mx):
    """_recursive_seqlets divides by the number of positive and of non-positive window sums."""
    n, l = X.shape
    cs = numpy.cumsum(X, axis=1)
    for j in range(mn, mx + 1):
        if l - j <= 0:
            return True
        d = cs[:, j:] - cs[:, :l - j]
        if not (d > 0).any() or not (d <= 0).any():
            return True
        if d[d <= 0].min() == 0:
            # every non-positive window sum is exactly 0 (grid / integer tracks): xmin = 0 and
            # the bin index 999 * 0 / 0 raises (numba) or is NaN (numpy)
            return True
    return False


def _rows(table):
    """rows of a returned table as [idx, start, end, attr, p]; a non-integral index / position
    is kept visible as -1 (which no well-formed row can have) instead of being truncated"""
    def integer(v):
        try:
            return int(v) if float(v) == int(v) else -1
        except (TypeError, ValueError, OverflowError):
            return -1
    return [[integer(r[0]), integer(r[1]), integer(r[2]), float(r[3]), float(r[4]) if len(r) > 4 else 0.0]
            for r in table]


REC_COLS = ['example_idx', 'start', 'end', 'attribution', 'p-value']
TF_COLS = ['example_idx', 'start', 'end', 'attribution']


def table_rows(df, cols):
    """the returned DataFrame read BY COLUMN NAME (the names the property text uses), in row order"""
    return _rows([[df[c].iloc[k] for c in cols] for k in range(len(df))])


def np_dtype(inp):
    return {'f32': numpy.float32, 'f64': numpy.float64, 'i64': numpy.int64}[inp['dtype']]


def track_values(inp):
    """the (n, l) values of the call in the call's dtype, C-contiguous"""
    X64 = make_track(inp)
    if inp['dtype'] == 'i64':
        X64 = numpy.round(X64 * 4)
    return numpy.ascontiguousarray(X64.astype(np_dtype(inp)))


def make_object(values, layout, container):
    """The object handed to the public function, the object owning its memory, and a function
    telling whether that memory is bit-identical to what it was.  Layouts: 'c' contiguous,
    'f' Fortran order, 'cols' every second column of a wider array, 'rows' every second row."""
    n, l = values.shape
    if layout == 'f':
        base = numpy.asfortranarray(values.copy())
        view = base
    elif layout == 'cols':
        base = numpy.full((n, 2 * l), 7, dtype=values.dtype)
        base[:, ::2] = values
        view = base[:, ::2]
    elif layout == 'rows':
        base = numpy.full((2 * n, l), 7, dtype=values.dtype)
        base[::2] = values
        view = base[::2]
    else:
        base = values.copy()
        view = base
    if container == 'torch':
        tb = torch.from_numpy(base)
        obj = tb if layout in ('c', 'f') else (tb[:, ::2] if layout == 'cols' else tb[::2])
        keep = tb.clone()
        return obj, (lambda: bool(torch.equal(tb, keep)) and bool(torch.equal(obj, torch.from_numpy(values))))
    keep = base.copy()
    return view, (lambda: base.tobytes() == keep.tobytes() and base.shape == keep.shape
                  and numpy.array_equal(view, values))


def typed_params(ptypes, thr, mn, mx, fl):
    if ptypes == 'np64':
        return numpy.float64(thr), numpy.int64(mn), numpy.int64(mx), numpy.int64(fl)
    if ptypes == 'np32':
        return numpy.float32(thr), numpy.int32(mn), numpy.int32(mx), numpy.int32(fl)
    return thr, mn, mx, fl


def rec_params(inp):
    """threshold, min, max, flanks of the observed call (defaults read from the current signature)"""
    from tangermeme import seqlet
    if inp.get('defaults'):
        sig = inspect.signature(seqlet.recursive_seqlets).parameters
        return (float(sig['threshold'].default), int(sig['min_seqlet_len'].default),
                int(sig['max_seqlet_len'].default), int(sig['additional_flanks'].default))
    thr = inp['thr']
    if inp.get('ptypes') == 'np32':
        thr = float(numpy.float32(thr))
    return thr, inp['min'], inp['max'], inp['flanks']


def tf_params(inp):
    from tangermeme import seqlet
    if inp.get('defaults'):
        sig = inspect.signature(seqlet.tfmodisco_seqlets).parameters
        return int(sig['window_size'].default), int(sig['flank'].default)
    return inp['window'], inp['flank']


def tf_kwargs(inp):
    kw = {}
    if not inp.get('defaults'):
        w, f = inp['window'], inp['flank']
        if inp.get('ptypes') == 'np64':
            w, f = numpy.int64(w), numpy.int64(f)
        elif inp.get('ptypes') == 'np32':
            w, f = numpy.int32(w), numpy.int32(f)
        kw.update(window_size=w, flank=f)
    for k_in, k_out in (('fdr', 'target_fdr'), ('min_frac', 'min_passing_frac'), ('max_frac', 'max_passing_frac'),
                        ('weak', 'weak_threshold_for_counting_sign')):
        if k_in in inp:
            kw[k_out] = inp[k_in]
    return kw


def run_pre(inp, obj):
    """Earlier calls in the same process (multi-call sequences): on the very same object with one
    thing changed, or on another tensor of the same shape with the same parameters.  Their results
    are not inspected here - what is observed is the LAST call and the caller's object."""
    from tangermeme import seqlet
    for pre in inp.get('pre', []):
        try:
            if pre['x'] == 'same':
                x = obj
            else:
                other = dict(inp, seed=pre['other_seed'])
                other.pop('X', None)
                if 'seed' not in inp:
                    other['n'], other['l'] = len(inp['X']), len(inp['X'][0])
                vals = track_values(other)
                x = torch.from_numpy(vals) if isinstance(obj, torch.Tensor) else vals
            with time_limit(TF_LIMIT):
                if pre['fn'] == 'rec':
                    seqlet.recursive_seqlets(x, *pre['args'])
                else:
                    seqlet.tfmodisco_seqlets(x, **pre['args'])
        except Exception:
            pass


def run_rec(inp):
    from tangermeme import seqlet
    Xnp = track_values(inp)
    args = rec_params(inp)
    out = {'kind': 'rec', 'X': [[float(v) for v in row] for row in Xnp], 'pub': None, 'jit': None,
           'py': None, 'caps': None, 'unchanged': True, 'params': list(args)}
    # 1. instrumented pure-Python kernel (interruptible: run first, the compiled runs are
    #    skipped when it does not terminate)
    caps = []
    try:
        run = split_kernel()
    except SplitError as e:
        out['split_error'] = str(e)
        run = None
    if run is not None:
        if _TIMEOUTS[0] >= 3:       # the implementation loops: do not wait again, fail closed
            out['timeout'] = True
            return out
        try:
            with time_limit(PY_LIMIT):
                raw = run(Xnp.copy(), *args, lambda i, pm, cs: caps.append((int(i), pm, cs)))
            out['py'] = _rows(list(raw))
        except ImplTimeout:
            out['timeout'] = True
            _TIMEOUTS[0] += 1
            return out
        except Exception as e:
            out['py_exc'] = repr(e)[:200]
        if [c[0] for c in caps] == list(range(len(caps))) and len(caps) == Xnp.shape[0]:
            out['caps'] = [{'pm': numpy.asarray(pm, dtype=numpy.float64).tolist(),
                            'cs': [float(v) for v in numpy.asarray(cs).ravel()]} for _, pm, cs in caps]
    # 2. public function: the caller's object in the requested layout / container, parameters in
    #    the requested Python / numpy types, after the earlier calls of the sequence
    obj, intact = make_object(Xnp, inp.get('layout', 'c'), inp.get('container', 'numpy'))
    run_pre(inp, obj)
    try:
        if inp.get('defaults'):
            df = seqlet.recursive_seqlets(obj)
        elif inp.get('keywords'):
            t, a, b, f = typed_params(inp.get('ptypes'), inp['thr'], inp['min'], inp['max'], inp['flanks'])
            df = seqlet.recursive_seqlets(additional_flanks=f, max_seqlet_len=b, min_seqlet_len=a, threshold=t, X=obj)
        else:
            df = seqlet.recursive_seqlets(obj, *typed_params(inp.get('ptypes'), inp['thr'], inp['min'],
                                                             inp['max'], inp['flanks']))
        out['pub'] = table_rows(df, REC_COLS)
    except Exception as e:
        out['pub_exc'] = repr(e)[:200]
    out['unchanged'] = bool(intact())
    # 3. compiled kernel
    try:
        Xj = Xnp.copy()
        out['jit'] = _rows(list(seqlet._recursive_seqlets(Xj, *args)))
        if Xj.tobytes() != Xnp.tobytes():
            # the kernel wrote into its argument: not what the property speaks about (that is the
            # public caller's tensor, observed above) but no longer the modelled kernel -> tie
            out['jit'] = None
            out['jit_exc'] = 'kernel modified its input array'
    except Exception as e:
        out['jit_exc'] = repr(e)[:200]
    return out


def run_tf(inp):
    from tangermeme import seqlet
    vals = track_values(inp)
    obj, intact = make_object(vals, inp.get('layout', 'c'), 'torch')
    out = {'kind': 'tf', 'X': [[float(v) for v in row] for row in vals], 'params': list(tf_params(inp))}
    run_pre(inp, obj)
    cap = {}
    orig = seqlet._iterative_extract_seqlets

    def wrapper(*a, **kw):
        b = inspect.signature(orig).bind(*a, **kw)
        b.apply_defaults()
        cap['scores'] = b.arguments['X_sum'].clone()
        cap['window'] = int(b.arguments['window_size'])
        cap['flank'] = int(b.arguments['flank'])
        cap['suppress'] = int(b.arguments['suppress'])
        return orig(*a, **kw)

    seqlet._iterative_extract_seqlets = wrapper
    try:
        if _TIMEOUTS[0] >= 3:
            cap['skipped'] = True
            raise ImplTimeout()
        with time_limit(TF_LIMIT):
            df = seqlet.tfmodisco_seqlets(obj, **tf_kwargs(inp))
        out['pub'] = table_rows(df, TF_COLS)
    except ImplTimeout:
        out['pub'] = None
        out['timeout'] = True
        _TIMEOUTS[0] += 1
    except Exception as e:
        out['pub'] = None
        out['pub_exc'] = repr(e)[:200]
    finally:
        seqlet._iterative_extract_seqlets = orig
    out['unchanged'] = bool(intact())
    if cap.get('skipped'):
        out['scores'] = None
        out['skipped'] = True
    elif cap:
        out['scores'] = cap['scores'].to(torch.float64).tolist()
        out['cap'] = [cap['window'], cap['flank'], cap['suppress']]
    else:
        out['scores'] = None      # the statistical front end raised before the extraction
    return out


def run_impl(inp):
    try:
        return run_rec(inp) if inp['kind'] == 'rec' else run_tf(inp)
    except SplitError:
        raise
    except Exception as e:     # harness-level failure: reported as a broken tie by main
        raise


# ----------------------------------------------------------------------------------------
# Coq literals

class Unencodable(Exception):
    pass


def _ratio(v):
    try:
        return float(v).as_integer_ratio()
    except (ValueError, OverflowError):
        raise Unencodable(repr(v))


class Scale:
    """one power-of-two scale for a family of floats"""

    def __init__(self):
        self.den = 1

    def see(self, vals):
        d = self.den
        for v in vals:
            dd = _ratio(v)[1]
            if dd > d:
                d = dd
        self.den = d

    def z(self, v):
        n, d = _ratio(v)
        n = n * (self.den // d)
        # hexadecimal literals parse about three times faster than decimal ones in coqc
        return '(-%s)' % hex(-n) if n < 0 else hex(n)

    def zl(self, vals):
        return C.lst([self.z(v) for v in vals])

    def see_reported(self, vals):
        self.see([v for v in vals if math.isfinite(v)])

    def z_reported(self, v):
        """a number REPORTED by the implementation: inf / NaN are written as +-10^30 (NaN as
        +10^30), which is never within tolerance of a finite input sum nor <= a threshold"""
        if math.isfinite(v):
            return self.z(v)
        n = 10 ** 30 * self.den
        return '(-%s)' % hex(n) if v == float('-inf') else hex(n)


def table_lit(rows, sx, sp):
    if rows is None:
        return 'Err'
    return '(Ok %s)' % C.lst(['(Sq %s %s %s %s %s)' % (C.z(r[0]), C.z(r[1]), C.z(r[2]), sx.z_reported(r[3]),
                                                       sp.z_reported(r[4])) for r in rows])


DUMMY = ('(CTf [[0]] 24 (Tf 1 0 0) [[None]], Err, Err, Ok [], true)')
def broken(out):
    """the model cannot be evaluated on this case (rec_hyps fails: verdict 1) - but an input
    tensor that was modified is still a failing input (verdict 2)"""
    return '(CRec [[0]] 53 (Pm 0 1 1 1 0 1) [] [], Err, Err, Err, %s)' % C.boolean(out.get('unchanged', True))


def coq_rec(inp, out):
    prec = 24 if inp['dtype'] == 'f32' else 53
    X = out['X']
    l = len(X[0])
    thr, mn, mx, fl = out['params']
    caps = out.get('caps')
    tables = [out.get('pub'), out.get('jit'), out.get('py')]
    sx, sp = Scale(), Scale()
    try:
        for row in X:
            sx.see(row)
        for t in tables:
            if t is not None:
                sx.see_reported([r[3] for r in t])
                sp.see_reported([r[4] for r in t])
        sp.see([thr, 1.0])
        if caps is not None:
            for c in caps:
                sx.see(c['cs'])
                for row in c['pm']:
                    sp.see(row)
        Xl = C.lst([sx.zl(row) for row in X])
        P = '(Pm %s %s %s %s %s %s)' % (sp.z(thr), sp.z(1.0), C.z(mn), C.z(mx), C.z(fl), C.z(l))
        if caps is not None:
            # rows as indices into a table of the distinct values (1.0 first, then by
            # frequency), trailing 1.0 cells dropped: decoded in Coq by Spec.unpack
            freq = {}
            for c in caps:
                for row in c['pm']:
                    for v in row:
                        freq[v] = freq.get(v, 0) + 1
            freq.pop(1.0, None)
            order = [1.0] + sorted(freq, key=lambda v: -freq[v])
            index = {v: k for k, v in enumerate(order)}
            tbl = sp.zl(order)
            mats = []
            for c in caps:
                rows = []
                for row in c['pm']:
                    k = len(row)
                    while k > 0 and row[k - 1] == 1.0:
                        k -= 1
                    rows.append('[' + ';'.join(str(index[v]) for v in row[:k]) + ']')
                mats.append('(map (unpack %s tbl) %s)' % (C.z(l), C.lst(rows)))
            pms = '(let tbl := %s in %s)' % (tbl, C.lst(mats))
            css = C.lst([sx.zl(c['cs']) for c in caps])
        else:
            pms, css = '[]', '[]'       # split failed / kernel raised: the model cannot be run
        call = '(CRec %s %d %s %s %s)' % (Xl, prec, P, pms, css)
        return '(%s, %s, %s, %s, %s)' % (call, table_lit(out.get('py'), sx, sp), table_lit(out.get('jit'), sx, sp),
                                         table_lit(out.get('pub'), sx, sp), C.boolean(out['unchanged']))
    except Unencodable:
        # NaN / inf somewhere: the model cannot be evaluated -> reported as a broken tie
        return broken(out)


def coq_tf(inp, out):
    prec = 24 if inp['dtype'] == 'f32' else 53
    if out.get('scores') is None:
        if out.get('pub') is None and not inp.get('expect_ok') and not out.get('skipped'):
            return DUMMY            # the (unverified) statistical front end raised on this track
        return broken(out)
    X = out['X']
    sx, sp = Scale(), Scale()
    try:
        for row in X:
            sx.see(row)
        if out['pub'] is not None:
            sx.see_reported([r[3] for r in out['pub']])
        finite = [[v for v in row if v != float('-inf')] for row in out['scores']]
        for row in finite:
            sx.see(row)
        Xl = C.lst([sx.zl(row) for row in X])
        sc = C.lst([C.lst(['None' if v == float('-inf') else '(Some %s)' % sx.z(v) for v in row])
                    for row in out['scores']])
        w, f, s = out['cap']
        # window / flank as requested by the caller (spec) - the captured triple must agree
        if [w, f] != list(out['params']):
            return broken(out)
        call = '(CTf %s %d (Tf %s %s %s) %s)' % (Xl, prec, C.z(w), C.z(f), C.z(s), sc)
        return '(%s, Err, Err, %s, %s)' % (call, table_lit(out['pub'], sx, sp), C.boolean(out['unchanged']))
    except Unencodable:
        return broken(out)


def coq_case(inp, out):
    return coq_rec(inp, out) if inp['kind'] == 'rec' else coq_tf(inp, out)


# ----------------------------------------------------------------------------------------
# bookkeeping

def _edge(inp, out):
    if not out.get('pub'):
        return False
    l = len(out['X'][0])
    f = out['params'][3] if inp['kind'] == 'rec' else out['params'][1]
    return any(r[1] <= f or l - r[2] <= f for r in out['pub'])


def nontrivial(inp, out):
    return _edge(inp, out)


def hist_key(inp, out):
    if out.get('pub') is None:
        return '%s/raise' % inp['kind']
    k = len(out['pub'])
    return '%s/%s/%s' % (inp['kind'], 'empty' if k == 0 else ('1-5' if k <= 5 else '6+'),
                         'edge' if _edge(inp, out) else 'inner')


def tags(inp, out):
    return set()


# ----------------------------------------------------------------------------------------
# generation

def _bumps(rng, n, l, k, wlo=3, whi=16):
    bs = []
    for _ in range(k):
        i = rng.randrange(n)
        w = rng.randint(wlo, max(wlo, whi))
        where = rng.random()
        if where < 0.2:
            pos = rng.choice([0, 1, 1, 2, 3])
        elif where < 0.4:
            pos = l - w - rng.choice([0, 1, 1, 2, 3])
        else:
            pos = rng.randint(0, l - w)
        amp = rng.choice([-1, 1]) * rng.choice([2.0, 3.0, 4.0, 6.0])
        bs.append([i, pos, w, amp])
    return bs


def _rec_ok(inp):
    mn, mx = (inp['min'], inp['max']) if not inp.get('defaults') else (4, 25)
    return not front_end_must_raise(track_values(inp).astype(numpy.float64), mn, mx)


def gen_rec(rng, big, plain=False):
    """one recursive_seqlets call.  Besides track, threshold, lengths and flanks the stream varies
    how the call is made: container (numpy / torch), dtype (float64 / float32 / int64), memory
    layout (C, Fortran, column-strided and row-strided views of a larger array), the Python /
    numpy types of the parameters, positional vs keyword arguments."""
    while True:
        n = rng.randint(1, 6)
        l = rng.choice([40, 41, 50, 64, 80, 100, 128, 150]) if not big else rng.randint(150, 600)
        if big:
            n = rng.randint(1, 3)
        mn = rng.choice([1, 2, 3, 3, 3, 3, 4, 4, 4, 5, 6, 8, 12, 20, 29])
        mx = rng.choice([mn, mn + 1, mn + 1, mn + 2, mn + 3, mn + 5, mn + 8, 10, 15, 25, 30])
        mx = min(max(mx, mn), 30)
        # coqc spends ~30 us per matrix cell on parsing: keep n * l * (max + 1) moderate
        while n > 1 and n * l * (mx + 1) > (30000 if big else 9000):
            n -= 1
        # p-values are multiples of about 2 / (n * l): thresholds below that never fire
        floor = 3.0 / (n * l)
        thrs = [t for t in (0.001, 0.005, 0.01, 0.02, 0.05, 0.1, 0.2) if t >= floor] or [0.2]
        thr = rng.choice(thrs + thrs[-2:] + [round(rng.uniform(max(floor, 0.001), 0.2), 4)])
        if rng.random() < 0.1:
            thr = rng.choice([0.001, 0.005])
        inp = {'kind': 'rec', 'seed': rng.randint(0, 10 ** 9), 'n': n, 'l': l,
               'noise': rng.choice([1.0, 1.0, 0.3, 0.01]),
               'bumps': _bumps(rng, n, l, rng.randint(0, 10), max(mn, 3), min(mx + 3, 30)),
               'dtype': rng.choice(['f64', 'f64', 'f32']),
               'container': rng.choice(['numpy', 'torch']),
               'thr': thr, 'min': mn, 'max': mx, 'flanks': rng.randint(0, 5)}
        if inp['noise'] != 1.0:
            inp['bumps'] = [[i, p, w, a * inp['noise']] for i, p, w, a in inp['bumps']]
        if rng.random() < 0.7:
            inp['grid'] = 8
        if not plain:
            form = rng.random()
            if form < 0.10:
                inp['dtype'], inp['noise'] = 'i64', 1.0       # integer attributions (values round(4 x))
                inp['bumps'] = [[i, p, w, a if abs(a) >= 1 else a / abs(a) * 3.0] for i, p, w, a in inp['bumps']]
            elif form < 0.30:
                inp['layout'] = rng.choice(['f', 'cols', 'rows', 'cols'])
            ptypes = rng.random()
            if ptypes < 0.16:
                inp['ptypes'] = 'np64'
            elif ptypes < 0.26 and inp['dtype'] == 'f64' and 'layout' not in inp:
                inp['ptypes'] = 'np32'
            if 'ptypes' in inp and inp['flanks'] == 0:
                inp['flanks'] = rng.randint(1, 5)
            if rng.random() < 0.15:
                inp['keywords'] = True
        if _rec_ok(inp):
            return inp


def gen_rec_boundary(rng):
    """boundary values of the integer parameters: min == max (no length is tried), max == min + 1,
    the largest lengths on the shortest track, flanks larger than the distance to both edges"""
    for mn, mx, l, f in ((3, 3, 40, 2), (30, 30, 64, 0), (3, 4, 40, 5), (29, 30, 40, 5), (1, 2, 40, 1),
                         (1, 30, 41, 3), (4, 25, 40, 5), (2, 3, 50, 0), (3, 30, 300, 5), (28, 30, 45, 4)):
        for _try in range(20):
            n = rng.randint(1, 3) if l < 100 else 1
            w = min(mx + 2, 12)
            inp = {'kind': 'rec', 'seed': rng.randint(0, 10 ** 9), 'n': n, 'l': l, 'noise': 1.0,
                   'bumps': [[0, 1, w, 4.0], [n - 1, l - w - 2, w, -4.0]],
                   'dtype': rng.choice(['f64', 'f32']), 'container': rng.choice(['numpy', 'torch']),
                   'thr': rng.choice([0.05, 0.1, 0.2]), 'min': mn, 'max': mx, 'flanks': f}
            if _rec_ok(inp):
                yield inp
                break


def gen_rec_defaults(rng):
    """recursive_seqlets(X) with every parameter left to its default"""
    while True:
        n, l = rng.choice([(2, 150), (2, 200), (3, 120), (1, 300)])
        inp = {'kind': 'rec', 'seed': rng.randint(0, 10 ** 9), 'n': n, 'l': l, 'noise': 1.0,
               'bumps': _bumps(rng, n, l, rng.randint(3, 8), 4, 20),
               'dtype': rng.choice(['f64', 'f32']), 'container': rng.choice(['numpy', 'torch']),
               'defaults': True}
        if _rec_ok(inp):
            return inp


def gen_rec_sequence(rng):
    """the observed call is the last of a sequence made in one process: earlier calls on the SAME
    object with one parameter changed, on ANOTHER tensor of the same shape with the same
    parameters (stale memoisation would show), or of the other caller on the same tensor"""
    inp = gen_rec(rng, False, plain=True)
    args = [inp['thr'], inp['min'], inp['max'], inp['flanks']]
    pre = []
    for _ in range(rng.randint(1, 3)):
        kind = rng.random()
        if kind < 0.4:
            pre.append({'fn': 'rec', 'x': 'other', 'other_seed': rng.randint(0, 10 ** 9), 'args': list(args)})
        elif kind < 0.8 or inp['dtype'] != 'f32' or inp['container'] != 'torch':
            a = list(args)
            k = rng.randrange(4)
            a[k] = [rng.choice([0.05, 0.2, 0.01]), max(1, a[1] - 1), min(30, a[2] + 2), (a[3] + 2) % 6][k]
            pre.append({'fn': 'rec', 'x': 'same', 'args': a})
        else:
            pre.append({'fn': 'tf', 'x': 'same', 'args': {'window_size': rng.choice([4, 5, 10]), 'flank': rng.choice([0, 2])}})
    inp['pre'] = pre
    return inp


def gen_tf(rng, big, plain=False):
    n = rng.randint(1, 6)
    l = rng.randint(60, 250) if not big else rng.randint(250, 600)
    w = rng.choice([1, 2, 3, 4, 5, 8, 10, 15, 20, 21, 25])
    inp = {'kind': 'tf', 'seed': rng.randint(0, 10 ** 9), 'n': n, 'l': l,
           'noise': rng.choice([1.0, 1.0, 0.1]),
           'bumps': _bumps(rng, n, l, rng.randint(0, 10)),
           'dtype': 'f32',   # the statistical front end (torch.quantile) only accepts float32
           'window': w, 'flank': rng.choice([0, 0, 1, 2, 3, 5, 8, 10, 12]),
           'fdr': rng.choice([0.05, 0.1, 0.2, 0.2, 0.3])}
    if inp['noise'] != 1.0:
        inp['bumps'] = [[i, p, w_, a * inp['noise']] for i, p, w_, a in inp['bumps']]
    if rng.random() < 0.7:
        inp['grid'] = 8
    if not plain:
        if rng.random() < 0.2:
            inp['layout'] = rng.choice(['f', 'cols', 'rows'])
        if rng.random() < 0.2:
            inp['ptypes'] = rng.choice(['np64', 'np32'])
        r = rng.random()
        if r < 0.12:
            inp['min_frac'], inp['max_frac'] = rng.choice([(0.0, 0.05), (0.1, 0.5), (0.2, 0.2), (0.03, 0.9)])
        elif r < 0.18:
            inp['weak'] = rng.choice([0.0, 0.1, 0.99])
        elif r < 0.24:
            del inp['fdr']                               # target_fdr left to its default
    return inp


def gen_tf_boundary(rng):
    """window == l (one window per example), window == l - 1, flanks that mask every window
    (2 * flank >= l - window + 1) or all but one, the smallest track"""
    for l, w, f in ((90, 1, 0), (90, 1, 3), (100, 2, 0), (100, 2, 2), (110, 3, 0), (110, 3, 5), (40, 1, 1),
                    (40, 40, 0), (40, 39, 0), (40, 39, 1), (60, 21, 20), (60, 21, 19), (61, 20, 20), (40, 1, 0),
                    (40, 2, 19), (100, 25, 12), (64, 4, 30)):
        n = rng.randint(2, 6)
        yield {'kind': 'tf', 'seed': rng.randint(0, 10 ** 9), 'n': n, 'l': l, 'noise': 1.0,
               'bumps': [[0, 0, min(w + 2, l), 4.0], [n - 1, max(l - w - 2, 0), min(w + 2, l), 4.0],
                         [n // 2, l // 2 - 3, 6, -4.0]],
               'dtype': 'f32', 'window': w, 'flank': f, 'fdr': 0.2}


def gen_tf_defaults(rng):
    """tfmodisco_seqlets(X_attr) with window_size, flank and every threshold left to the defaults"""
    n, l = rng.randint(1, 6), rng.randint(100, 400)
    return {'kind': 'tf', 'seed': rng.randint(0, 10 ** 9), 'n': n, 'l': l, 'noise': 1.0,
            'bumps': _bumps(rng, n, l, rng.randint(2, 10), 8, 24), 'dtype': 'f32', 'defaults': True}


def gen_tf_sequence(rng):
    inp = gen_tf(rng, False, plain=True)
    kw = {'window_size': inp['window'], 'flank': inp['flank'], 'target_fdr': inp['fdr']}
    pre = []
    for _ in range(rng.randint(1, 3)):
        kind = rng.random()
        if kind < 0.35:
            pre.append({'fn': 'tf', 'x': 'other', 'other_seed': rng.randint(0, 10 ** 9), 'args': dict(kw)})
        elif kind < 0.75:
            k2 = dict(kw)
            which = rng.choice(['window_size', 'flank', 'target_fdr'])
            k2[which] = {'window_size': inp['window'] + 1, 'flank': (inp['flank'] + 3) % 7,
                         'target_fdr': 0.05 if inp['fdr'] != 0.05 else 0.3}[which]
            pre.append({'fn': 'tf', 'x': 'same', 'args': k2})
        else:
            pre.append({'fn': 'rec', 'x': 'same', 'args': [0.05, 3, 8, rng.randint(0, 3)]})
    inp['pre'] = pre
    return inp


def generate(tier, rng):
    quick = tier != 'thorough'
    n_rec, n_big, n_tf, n_def, n_seq = (70, 5, 40, 3, 9) if quick else (300, 25, 180, 15, 40)
    for inp in gen_rec_boundary(rng):
        yield inp
    for inp in gen_tf_boundary(rng):
        yield inp
    for _ in range(n_def):
        yield gen_rec_defaults(rng)
        yield gen_tf_defaults(rng)
    for _ in range(n_seq):
        yield gen_rec_sequence(rng)
        yield gen_tf_sequence(rng)
    for _ in range(n_rec):
        yield gen_rec(rng, False)
    for _ in range(n_big):
        yield gen_rec(rng, True)
    for k in range(n_tf):
        yield gen_tf(rng, k % 8 == 7)


def shrink(inp):
    for c in _shrink(inp):
        # never shrink towards a track on which the statistical front end must raise
        if c['kind'] != 'rec' or 'X' in c or _rec_ok(c):
            yield c


def _shrink(inp):
    if _TIMEOUTS[0] > 3:        # a looping implementation: do not spend the run on shrinking
        return
    # fewer things first: no earlier calls, plain call form
    if len(inp.get('pre', [])) > 1:
        # keep at least one earlier call: a failure that depends on process state must stay
        # reproducible from the replay file in a fresh process
        for k in range(len(inp['pre'])):
            yield dict(inp, pre=inp['pre'][:k] + inp['pre'][k + 1:])
    for key in ('layout', 'ptypes', 'keywords', 'min_frac', 'max_frac', 'weak'):
        if key in inp:
            c = dict(inp)
            del c[key]
            if key == 'min_frac':
                c.pop('max_frac', None)
            yield c
    n = inp.get('n', len(inp.get('X', [[]])))
    if 'X' not in inp:
        if n > 1:
            c = dict(inp, n=n - 1)
            c['bumps'] = [b for b in inp['bumps'] if b[0] < n - 1]
            yield c
        for k in range(len(inp['bumps'])):
            yield dict(inp, bumps=inp['bumps'][:k] + inp['bumps'][k + 1:])
        l = inp['l']
        for l2 in (l // 2, l - 10, l - 1):
            if l2 >= 40 and all(b[1] + b[2] <= l2 for b in inp['bumps']) \
                    and (inp['kind'] == 'rec' or inp.get('defaults') or inp['window'] <= l2):
                yield dict(inp, l=l2)
    if inp['kind'] == 'rec' and not inp.get('defaults'):
        if inp['flanks'] > 0:
            yield dict(inp, flanks=inp['flanks'] - 1)
        if inp['max'] > inp['min'] + 1:
            yield dict(inp, max=inp['max'] - 1)
        if inp['dtype'] != 'f64':
            yield dict(inp, dtype='f64')
        if inp.get('container') != 'numpy':
            yield dict(inp, container='numpy')


def search(rng, disagreeing):
    """Boundary-directed extra inputs: every seqlet-producing bump sits next to an edge and the
    flanks are large, so that clipping at 0 and at l is exercised."""
    for inp in disagreeing[:5]:
        if inp['kind'] == 'rec' and 'X' not in inp and not inp.get('defaults'):
            for f in (1, 3, 5):
                w = min(inp['max'] + 1, 12)
                yield dict(inp, flanks=f, bumps=[[0, 1, w, 4.0 * inp.get('noise', 1.0)],
                                                 [0, inp['l'] - w - 1, w, -4.0 * inp.get('noise', 1.0)]])
    for _ in range(24):
        inp = gen_rec(rng, False, plain=True)
        w = min(inp['max'] + 1, 12)
        a = 4.0 * inp['noise']
        inp['bumps'] = [[i, 1, w, a] for i in range(inp['n'])] + [[i, inp['l'] - w - 1, w, -a] for i in range(inp['n'])]
        inp['flanks'] = rng.choice([2, 3, 4, 5])
        inp['thr'] = max(inp['thr'], 0.05)
        if _rec_ok(inp):
            yield inp
    for _ in range(12):
        inp = gen_tf(rng, False, plain=True)
        inp['window'] = rng.choice([1, 2, 3, 5])
        inp['flank'] = rng.choice([0, 1, 2, 3])
        inp['bumps'] = [[i, 0, 6, 4.0 * inp['noise']] for i in range(inp['n'])] + \
                       [[i, inp['l'] - 6, 6, 4.0 * inp['noise']] for i in range(inp['n'])]
        yield inp
