"""C19 - seqlet callers: correspondence with coq/C19 (extraction model + row-wise spec).

recursive_seqlets: the per-example p-value matrix and cumulative sum are captured from the
CURRENT source of `_recursive_seqlets`: its py_func source is re-parsed with `ast` on every
run, a call `__c19_capture__(i, p_value.copy(), X_csum[i].copy())` is inserted just before
the extraction loop inside the per-example loop, and the result is executed as plain Python.
If the source no longer has the expected shape the split fails closed (broken tie).
The captured matrices (floats -> exact scaled integers) are what Coq's `extract` runs on.

tfmodisco_seqlets: the window-score tensor handed to `_iterative_extract_seqlets` is
captured by wrapping that module-level function for the duration of the call.
"""
import ast
import contextlib
import inspect
import signal
import textwrap

import numpy
import torch

from . import common as C

PID = 'C19'
IMPORTS = ['C19.Model', 'C19.Spec']
CASE_TYPE = 'case'
CHECK = 'check_case'
SHARD = 6
RULE = ('seeded random attribution tracks: 1-6 examples, length 40-600, gaussian noise + 0-10 planted '
        'positive/negative bumps (a third of them adjacent to position 0/1 or to the end), float64/float32, '
        'numpy/torch; recursive_seqlets with threshold 0.001-0.2, min/max lengths 3-30, additional_flanks 0-5; '
        'tfmodisco_seqlets with window 1-25, flank 0-12, target_fdr 0.05-0.3; tracks on which the statistical '
        'front end of recursive_seqlets must raise (no positive or no non-positive window sum for some length) '
        'are re-drawn; non-trivial = returned table with >= 1 seqlet within `flanks` of an edge of its example')
TRUSTED = ['ast split of _recursive_seqlets.py_func (inserts one capture call, otherwise executes the current source as plain Python)',
           'wrapper around seqlet._iterative_extract_seqlets that clones its X_sum argument',
           'exact float -> scaled integer conversion (float.as_integer_ratio, one power-of-two scale per call for '
           'attribution-like values and one for p-value-like values)',
           'pandas DataFrame construction / sort_values (sortedness and multiset equality with the kernel rows are checked)']
ASSUMPTIONS = ['float rounding is not modelled: attribution = input sum is demanded up to the stated cumulative-sum '
               'rounding bound (Spec.v: close), exact in the theorems',
               'the statistical front end producing the p-value matrix / window scores is not verified; the matrices '
               'are captured and the theorems\' shape hypotheses (shape_ok, masked) are evaluated on every captured matrix',
               'aliasing ("input tensor not modified") is observed by the harness, not modelled']

# ----------------------------------------------------------------------------------------
# runtime split of _recursive_seqlets

_SPLIT = {}


class SplitError(Exception):
    pass


def _is_range_loop(node, var, arg):
    return (isinstance(node, ast.For) and isinstance(node.target, ast.Name) and node.target.id == var
            and isinstance(node.iter, ast.Call) and isinstance(node.iter.func, ast.Name)
            and node.iter.func.id == 'range' and len(node.iter.args) == 1
            and isinstance(node.iter.args[0], ast.Name) and node.iter.args[0].id == arg)


def _has(node, kind):
    return any(isinstance(x, kind) for x in ast.walk(node))


def _names(node):
    return {x.id for x in ast.walk(node) if isinstance(x, ast.Name)}


def split_kernel():
    """Returns a callable f(X, thr, min, max, flanks, capture) running the current source of
    _recursive_seqlets as plain Python with the capture inserted."""
    from tangermeme import seqlet
    key = id(seqlet._recursive_seqlets)
    if key in _SPLIT:
        return _SPLIT[key]
    py = getattr(seqlet._recursive_seqlets, 'py_func', None)
    if py is None:
        raise SplitError('_recursive_seqlets has no py_func (not a numba dispatcher any more)')
    src = textwrap.dedent(inspect.getsource(py))
    tree = ast.parse(src)
    if len(tree.body) != 1 or not isinstance(tree.body[0], ast.FunctionDef):
        raise SplitError('source of _recursive_seqlets is not one function definition')
    fn = tree.body[0]
    fn.decorator_list = []
    argnames = [a.arg for a in fn.args.args]
    if argnames != ['X', 'threshold', 'min_seqlet_len', 'max_seqlet_len', 'additional_flanks']:
        raise SplitError('unexpected signature %r' % (argnames,))
    top = fn.body
    assigned = {}
    for k, st in enumerate(top):
        if isinstance(st, ast.Assign) and len(st.targets) == 1 and isinstance(st.targets[0], ast.Name):
            assigned.setdefault(st.targets[0].id, k)
    if 'p_value' not in assigned or 'X_csum' not in assigned:
        raise SplitError('p_value / X_csum are not assigned at the top level of the function')
    loops = [k for k, st in enumerate(top) if k > assigned['p_value'] and _is_range_loop(st, 'i', 'n')]
    if len(loops) != 1:
        raise SplitError('expected exactly one "for i in range(n)" loop after the p_value allocation, found %d' % len(loops))
    per_example = top[loops[0]]
    body = per_example.body
    if len(body) < 2:
        raise SplitError('per-example loop has no separate scoring and extraction parts')
    extraction, scoring = body[-1], body[:-1]
    if not (isinstance(extraction, ast.For) and _has(extraction, ast.While)
            and 'p_value' in _names(extraction) and 'seqlets' in _names(extraction)):
        raise SplitError('last statement of the per-example loop is not the extraction loop')
    for st in scoring:
        if not isinstance(st, ast.For) or _has(st, ast.While) or 'seqlets' in _names(st):
            raise SplitError('statements before the extraction loop are not pure scoring loops')
    if any('seqlets' in _names(st) and _has(st, ast.While) for k, st in enumerate(top) if k != loops[0]):
        raise SplitError('another extraction loop exists outside the per-example loop')
    cap = ast.parse('__c19_capture__(i, p_value.copy(), X_csum[i].copy())').body[0]
    per_example.body = scoring + [cap, extraction]
    ast.fix_missing_locations(tree)
    ns = dict(vars(seqlet))
    holder = {}
    ns['__c19_capture__'] = lambda i, pm, cs: holder['cb'](i, pm, cs)
    exec(compile(tree, '<c19 split of _recursive_seqlets>', 'exec'), ns)
    kernel = ns[fn.name]

    def run(X, thr, mn, mx, fl, capture):
        holder['cb'] = capture
        return kernel(X, thr, mn, mx, fl)

    _SPLIT[key] = run
    return run


def prebuild():
    split_kernel()
    return {'split': 'ok'}


# ----------------------------------------------------------------------------------------
# a changed implementation may loop forever (both extraction loops end only because a cell is
# overwritten each round); the pure-Python runs are interrupted by SIGALRM

class ImplTimeout(Exception):
    pass


@contextlib.contextmanager
def time_limit(seconds):
    def handler(signum, frame):
        raise ImplTimeout()
    try:
        old = signal.signal(signal.SIGALRM, handler)
    except ValueError:          # not the main thread: no limit
        yield
        return
    signal.alarm(seconds)
    try:
        yield
    finally:
        signal.alarm(0)
        signal.signal(signal.SIGALRM, old)


_TIMEOUTS = [0]
PY_LIMIT = 60      # seconds for one instrumented pure-Python kernel run (normally < 3 s)
TF_LIMIT = 20       # seconds for one tfmodisco_seqlets call (normally < 1 s)

# ----------------------------------------------------------------------------------------
# inputs

def make_track(inp):
    """float64 numpy array (n, l) defined by the input description."""
    if 'X' in inp:
        X = numpy.array(inp['X'], dtype=numpy.float64)
    else:
        rs = numpy.random.RandomState(inp['seed'])
        X = rs.randn(inp['n'], inp['l']) * inp.get('noise', 1.0)
    for i, pos, w, amp in inp.get('bumps', []):
        if i < X.shape[0]:
            X[i, max(pos, 0):max(pos + w, 0)] += amp
    return X


def front_end_must_raise(X, mn, mx):
    """_recursive_seqlets divides by the number of positive and of non-positive window sums."""
    n, l = X.shape
    cs = numpy.cumsum(X, axis=1)
    for j in range(mn, mx + 1):
        if l - j <= 0:
            return True
        d = cs[:, j:] - cs[:, :l - j]
        if not (d > 0).any() or not (d <= 0).any():
            return True
    return False


def _rows(table):
    return [[int(r[0]), int(r[1]), int(r[2]), float(r[3]), float(r[4]) if len(r) > 4 else 0.0] for r in table]


def run_rec(inp):
    from tangermeme import seqlet
    X64 = make_track(inp)
    dt = numpy.float32 if inp['dtype'] == 'f32' else numpy.float64
    Xnp = numpy.ascontiguousarray(X64.astype(dt))
    args = (inp['thr'], inp['min'], inp['max'], inp['flanks'])
    out = {'kind': 'rec', 'X': [[float(v) for v in row] for row in Xnp], 'pub': None, 'jit': None,
           'py': None, 'caps': None, 'unchanged': True}
    # 1. instrumented pure-Python kernel (interruptible: run first, the compiled runs are
    #    skipped when it does not terminate)
    caps = []
    try:
        run = split_kernel()
    except SplitError as e:
        out['split_error'] = str(e)
        run = None
    if run is not None:
        if _TIMEOUTS[0] >= 3:       # the implementation loops: do not wait again, fail closed
            out['timeout'] = True
            return out
        try:
            with time_limit(PY_LIMIT):
                raw = run(Xnp.copy(), *args, lambda i, pm, cs: caps.append((int(i), pm, cs)))
            out['py'] = _rows(list(raw))
        except ImplTimeout:
            out['timeout'] = True
            _TIMEOUTS[0] += 1
            return out
        except Exception as e:
            out['py_exc'] = repr(e)[:200]
        if [c[0] for c in caps] == list(range(len(caps))) and len(caps) == Xnp.shape[0]:
            out['caps'] = [{'pm': numpy.asarray(pm, dtype=numpy.float64).tolist(),
                            'cs': [float(v) for v in numpy.asarray(cs).ravel()]} for _, pm, cs in caps]
    # 2. public function
    Xpub = torch.from_numpy(Xnp.copy()) if inp.get('container') == 'torch' else Xnp.copy()
    keep = Xpub.clone() if isinstance(Xpub, torch.Tensor) else Xpub.copy()
    try:
        df = seqlet.recursive_seqlets(Xpub, *args)
        out['cols'] = [str(c) for c in df.columns]
        out['pub'] = _rows(df.values.tolist())
    except Exception as e:
        out['pub_exc'] = repr(e)[:200]
    same = torch.equal(Xpub, keep) if isinstance(Xpub, torch.Tensor) else \
        (Xpub.tobytes() == keep.tobytes() and Xpub.shape == keep.shape)
    out['unchanged'] = bool(same)
    # 3. compiled kernel
    try:
        Xj = Xnp.copy()
        out['jit'] = _rows(list(seqlet._recursive_seqlets(Xj, *args)))
        out['unchanged'] = out['unchanged'] and Xj.tobytes() == Xnp.tobytes()
    except Exception as e:
        out['jit_exc'] = repr(e)[:200]
    return out


def run_tf(inp):
    from tangermeme import seqlet
    X64 = make_track(inp)
    dt = torch.float32 if inp['dtype'] == 'f32' else torch.float64
    X = torch.from_numpy(X64).to(dt).contiguous()
    keep = X.clone()
    out = {'kind': 'tf', 'X': X.to(torch.float64).tolist()}
    cap = {}
    orig = seqlet._iterative_extract_seqlets

    def wrapper(*a, **kw):
        b = inspect.signature(orig).bind(*a, **kw)
        b.apply_defaults()
        cap['scores'] = b.arguments['X_sum'].clone()
        cap['window'] = int(b.arguments['window_size'])
        cap['flank'] = int(b.arguments['flank'])
        cap['suppress'] = int(b.arguments['suppress'])
        return orig(*a, **kw)

    seqlet._iterative_extract_seqlets = wrapper
    try:
        if _TIMEOUTS[0] >= 3:
            cap['skipped'] = True
            raise ImplTimeout()
        with time_limit(TF_LIMIT):
            df = seqlet.tfmodisco_seqlets(X, window_size=inp['window'], flank=inp['flank'],
                                          target_fdr=inp.get('fdr', 0.2))
        out['pub'] = _rows(df.values.tolist())
    except ImplTimeout:
        out['pub'] = None
        out['timeout'] = True
        _TIMEOUTS[0] += 1
    except Exception as e:
        out['pub'] = None
        out['pub_exc'] = repr(e)[:200]
    finally:
        seqlet._iterative_extract_seqlets = orig
    out['unchanged'] = bool(torch.equal(X, keep))
    if cap.get('skipped'):
        out['scores'] = None
        out['skipped'] = True
    elif cap:
        out['scores'] = cap['scores'].to(torch.float64).tolist()
        out['cap'] = [cap['window'], cap['flank'], cap['suppress']]
    else:
        out['scores'] = None      # the statistical front end raised before the extraction
    return out


def run_impl(inp):
    try:
        return run_rec(inp) if inp['kind'] == 'rec' else run_tf(inp)
    except SplitError:
        raise
    except Exception as e:     # harness-level failure: reported as a broken tie by main
        raise


# ----------------------------------------------------------------------------------------
# Coq literals

class Unencodable(Exception):
    pass


def _ratio(v):
    try:
        return float(v).as_integer_ratio()
    except (ValueError, OverflowError):
        raise Unencodable(repr(v))


class Scale:
    """one power-of-two scale for a family of floats"""

    def __init__(self):
        self.den = 1

    def see(self, vals):
        d = self.den
        for v in vals:
            dd = _ratio(v)[1]
            if dd > d:
                d = dd
        self.den = d

    def z(self, v):
        n, d = _ratio(v)
        n = n * (self.den // d)
        # hexadecimal literals parse about three times faster than decimal ones in coqc
        return '(-%s)' % hex(-n) if n < 0 else hex(n)

    def zl(self, vals):
        return C.lst([self.z(v) for v in vals])


def table_lit(rows, sx, sp):
    if rows is None:
        return 'Err'
    return '(Ok %s)' % C.lst(['(Sq %s %s %s %s %s)' % (C.z(r[0]), C.z(r[1]), C.z(r[2]), sx.z(r[3]), sp.z(r[4]))
                              for r in rows])


DUMMY = ('(CTf [[0]] 24 (Tf 1 0 0) [[None]], Err, Err, Ok [], true)')
BROKEN = ('(CRec [[0]] 53 (Pm 0 1 1 1 0 1) [] [], Err, Err, Err, true)')   # rec_hyps fails: verdict 1


def coq_rec(inp, out):
    prec = 24 if inp['dtype'] == 'f32' else 53
    X = out['X']
    l = len(X[0])
    caps = out.get('caps')
    tables = [out.get('pub'), out.get('jit'), out.get('py')]
    sx, sp = Scale(), Scale()
    try:
        for row in X:
            sx.see(row)
        for t in tables:
            if t is not None:
                sx.see([r[3] for r in t])
                sp.see([r[4] for r in t])
        sp.see([inp['thr'], 1.0])
        if caps is not None:
            for c in caps:
                sx.see(c['cs'])
                for row in c['pm']:
                    sp.see(row)
        Xl = C.lst([sx.zl(row) for row in X])
        P = '(Pm %s %s %s %s %s %s)' % (sp.z(inp['thr']), sp.z(1.0), C.z(inp['min']), C.z(inp['max']),
                                        C.z(inp['flanks']), C.z(l))
        if caps is not None:
            # rows as indices into a table of the distinct values (1.0 first, then by
            # frequency), trailing 1.0 cells dropped: decoded in Coq by Spec.unpack
            freq = {}
            for c in caps:
                for row in c['pm']:
                    for v in row:
                        freq[v] = freq.get(v, 0) + 1
            freq.pop(1.0, None)
            order = [1.0] + sorted(freq, key=lambda v: -freq[v])
            index = {v: k for k, v in enumerate(order)}
            tbl = sp.zl(order)
            mats = []
            for c in caps:
                rows = []
                for row in c['pm']:
                    k = len(row)
                    while k > 0 and row[k - 1] == 1.0:
                        k -= 1
                    rows.append('[' + ';'.join(str(index[v]) for v in row[:k]) + ']')
                mats.append('(map (unpack %s tbl) %s)' % (C.z(l), C.lst(rows)))
            pms = '(let tbl := %s in %s)' % (tbl, C.lst(mats))
            css = C.lst([sx.zl(c['cs']) for c in caps])
        else:
            pms, css = '[]', '[]'       # split failed / kernel raised: the model cannot be run
        call = '(CRec %s %d %s %s %s)' % (Xl, prec, P, pms, css)
        return '(%s, %s, %s, %s, %s)' % (call, table_lit(out.get('py'), sx, sp), table_lit(out.get('jit'), sx, sp),
                                         table_lit(out.get('pub'), sx, sp), C.boolean(out['unchanged']))
    except Unencodable:
        # NaN / inf somewhere: the model cannot be evaluated -> reported as a broken tie
        return BROKEN


def coq_tf(inp, out):
    prec = 24 if inp['dtype'] == 'f32' else 53
    if out.get('scores') is None:
        if out.get('pub') is None and not inp.get('expect_ok') and not out.get('skipped'):
            return DUMMY            # the (unverified) statistical front end raised on this track
        return BROKEN
    X = out['X']
    sx, sp = Scale(), Scale()
    try:
        for row in X:
            sx.see(row)
        if out['pub'] is not None:
            sx.see([r[3] for r in out['pub']])
        finite = [[v for v in row if v != float('-inf')] for row in out['scores']]
        for row in finite:
            sx.see(row)
        Xl = C.lst([sx.zl(row) for row in X])
        sc = C.lst([C.lst(['None' if v == float('-inf') else '(Some %s)' % sx.z(v) for v in row])
                    for row in out['scores']])
        w, f, s = out['cap']
        # window / flank as requested by the caller (spec) - the captured triple must agree
        if (w, f) != (inp['window'], inp['flank']):
            return BROKEN
        call = '(CTf %s %d (Tf %s %s %s) %s)' % (Xl, prec, C.z(w), C.z(f), C.z(s), sc)
        return '(%s, Err, Err, %s, %s)' % (call, table_lit(out['pub'], sx, sp), C.boolean(out['unchanged']))
    except Unencodable:
        return BROKEN


def coq_case(inp, out):
    return coq_rec(inp, out) if inp['kind'] == 'rec' else coq_tf(inp, out)


# ----------------------------------------------------------------------------------------
# bookkeeping

def _edge(inp, out):
    if not out.get('pub'):
        return False
    l = len(out['X'][0])
    f = inp['flanks'] if inp['kind'] == 'rec' else inp['flank']
    return any(r[1] <= f or l - r[2] <= f for r in out['pub'])


def nontrivial(inp, out):
    return _edge(inp, out)


def hist_key(inp, out):
    if out.get('pub') is None:
        return '%s/raise' % inp['kind']
    k = len(out['pub'])
    return '%s/%s/%s' % (inp['kind'], 'empty' if k == 0 else ('1-5' if k <= 5 else '6+'),
                         'edge' if _edge(inp, out) else 'inner')


def tags(inp, out):
    return set()


# ----------------------------------------------------------------------------------------
# generation

def _bumps(rng, n, l, k, wlo=3, whi=16):
    bs = []
    for _ in range(k):
        i = rng.randrange(n)
        w = rng.randint(wlo, max(wlo, whi))
        where = rng.random()
        if where < 0.2:
            pos = rng.choice([0, 1, 1, 2, 3])
        elif where < 0.4:
            pos = l - w - rng.choice([0, 1, 1, 2, 3])
        else:
            pos = rng.randint(0, l - w)
        amp = rng.choice([-1, 1]) * rng.choice([2.0, 3.0, 4.0, 6.0])
        bs.append([i, pos, w, amp])
    return bs


def gen_rec(rng, big):
    while True:
        n = rng.randint(1, 6)
        l = rng.choice([40, 41, 50, 64, 80, 100, 128, 150]) if not big else rng.randint(150, 600)
        if big:
            n = rng.randint(1, 3)
        mn = rng.choice([3, 3, 3, 4, 4, 5, 6, 8, 12, 20, 29])
        mx = rng.choice([mn, mn + 1, mn + 2, mn + 3, mn + 5, mn + 8, 10, 15, 25, 30])
        mx = min(max(mx, mn), 30)
        # p-values are multiples of about 2 / (n * l): thresholds below that never fire
        floor = 3.0 / (n * l)
        thrs = [t for t in (0.001, 0.005, 0.01, 0.02, 0.05, 0.1, 0.2) if t >= floor] or [0.2]
        thr = rng.choice(thrs + thrs[-2:] + [round(rng.uniform(max(floor, 0.001), 0.2), 4)])
        if rng.random() < 0.1:
            thr = rng.choice([0.001, 0.005])
        inp = {'kind': 'rec', 'seed': rng.randint(0, 10 ** 9), 'n': n, 'l': l,
               'noise': rng.choice([1.0, 1.0, 0.3, 0.01]),
               'bumps': _bumps(rng, n, l, rng.randint(0, 10), mn, min(mx + 3, 30)),
               'dtype': rng.choice(['f64', 'f64', 'f32']),
               'container': rng.choice(['numpy', 'torch']),
               'thr': thr, 'min': mn, 'max': mx, 'flanks': rng.randint(0, 5)}
        if inp['noise'] != 1.0:
            inp['bumps'] = [[i, p, w, a * inp['noise']] for i, p, w, a in inp['bumps']]
        if not front_end_must_raise(make_track(inp), mn, mx):
            return inp


def gen_tf(rng, big):
    n = rng.randint(1, 6)
    l = rng.randint(60, 250) if not big else rng.randint(250, 600)
    w = rng.choice([1, 2, 3, 5, 8, 10, 15, 21, 25])
    return {'kind': 'tf', 'seed': rng.randint(0, 10 ** 9), 'n': n, 'l': l,
            'noise': rng.choice([1.0, 1.0, 0.1]),
            'bumps': _bumps(rng, n, l, rng.randint(0, 10)),
            'dtype': 'f32',   # the statistical front end (torch.quantile) only accepts float32
            'window': w, 'flank': rng.choice([0, 0, 1, 2, 3, 5, 8, 10, 12]),
            'fdr': rng.choice([0.05, 0.1, 0.2, 0.2, 0.3])}


def generate(tier, rng):
    quick = tier != 'thorough'
    n_rec, n_big, n_tf = (90, 6, 50) if quick else (500, 40, 300)
    for _ in range(n_rec):
        yield gen_rec(rng, False)
    for _ in range(n_big):
        yield gen_rec(rng, True)
    for k in range(n_tf):
        yield gen_tf(rng, k % 8 == 7)


def shrink(inp):
    if _TIMEOUTS[0] > 3:        # a looping implementation: do not spend the run on shrinking
        return
    n = inp.get('n', len(inp.get('X', [[]])))
    if 'X' not in inp:
        if n > 1:
            c = dict(inp, n=n - 1)
            c['bumps'] = [b for b in inp['bumps'] if b[0] < n - 1]
            yield c
        for k in range(len(inp['bumps'])):
            yield dict(inp, bumps=inp['bumps'][:k] + inp['bumps'][k + 1:])
        l = inp['l']
        for l2 in (l // 2, l - 10, l - 1):
            if l2 >= 40 and all(b[1] + b[2] <= l2 for b in inp['bumps']):
                yield dict(inp, l=l2)
    if inp['kind'] == 'rec':
        if inp['flanks'] > 0:
            yield dict(inp, flanks=inp['flanks'] - 1)
        if inp['max'] > inp['min'] + 1:
            yield dict(inp, max=inp['max'] - 1)
        if inp['dtype'] != 'f64':
            yield dict(inp, dtype='f64')
        if inp.get('container') != 'numpy':
            yield dict(inp, container='numpy')


def search(rng, disagreeing):
    """Boundary-directed extra inputs: every seqlet-producing bump sits next to an edge and the
    flanks are large, so that clipping at 0 and at l is exercised."""
    for inp in disagreeing[:5]:
        if inp['kind'] == 'rec' and 'X' not in inp:
            for f in (1, 3, 5):
                w = min(inp['max'] + 1, 12)
                yield dict(inp, flanks=f, bumps=[[0, 1, w, 4.0 * inp.get('noise', 1.0)],
                                                 [0, inp['l'] - w - 1, w, -4.0 * inp.get('noise', 1.0)]])
    for _ in range(24):
        inp = gen_rec(rng, False)
        w = min(inp['max'] + 1, 12)
        a = 4.0 * inp['noise']
        inp['bumps'] = [[i, 1, w, a] for i in range(inp['n'])] + [[i, inp['l'] - w - 1, w, -a] for i in range(inp['n'])]
        inp['flanks'] = rng.choice([2, 3, 4, 5])
        inp['thr'] = max(inp['thr'], 0.05)
        if not front_end_must_raise(make_track(inp), inp['min'], inp['max']):
            yield inp
    for _ in range(12):
        inp = gen_tf(rng, False)
        inp['window'] = rng.choice([1, 2, 3, 5])
        inp['flank'] = rng.choice([0, 1, 2, 3])
        inp['bumps'] = [[i, 0, 6, 4.0 * inp['noise']] for i in range(inp['n'])] + \
                       [[i, inp['l'] - 6, 6, 4.0 * inp['noise']] for i in range(inp['n'])]
        yield inp
