"""C03 - predict is transparent to batching: correspondence with coq/C03.

The user model handed to tangermeme.predict.predict is a recording module that contains a
BatchNorm1d and a Dropout (so that train vs eval mode changes its output, and BatchNorm even
raises on a one-row batch in training mode) followed by an exact-integer encoding head:
output j of example i is (j+1) * (X[i] ++ args[0][i] ++ args[1][i] ++ ...).  Every forward call
appends (the training flag of EVERY module of model.modules(), torch.is_grad_enabled(), rows of X,
rows of every arg) to a log.  The module is handed over in varied states (all training, all eval,
root in eval mode with children in training mode, ...).  The returned value, the full call trace,
"inputs unmodified" and "batch-norm buffers unmodified" go to Coq, where the
executable model (equality) and the decidable spec are evaluated.
"""
import torch

from . import common as C

torch.set_num_threads(1)    # tiny tensors: intra-op threads only add contention

PID = 'C03'
IMPORTS = ['Base.PyList', 'C03.Model', 'C03.Spec']
CASE_TYPE = 'case'
CHECK = 'check_case'
RULE = ('n in 1..40 x batch_size in 1..n+3 x 0-3 extra args x {tensor, tuple, list} outputs '
        '(thorough: every combination; quick: every b for a grid of n, kinds rotated), module and '
        'autograd state before the call varied (per-module training flags: all training / all eval / root '
        'eval with bn and/or dropout in training mode / root training with a child in eval mode), X 2-D/3-D, args 1-D/2-D int64/float32, passed as '
        'tuple/list/None; per-example-distinct values in X and in every arg (independent '
        'permutations); args keep their own dtype: float32 / float64 / float16 / int64 / int32 / bool on a '
        'float32 or float64 model, including float64 values not representable in float32 (odd integers '
        'above 2^24, t + 2^-30) - recorded rows are exact (integers scaled by a per-arg power of two) and '
        'carry the dtype the model received; X float32 / float64 / int64 (cast to the parameter dtype by '
        'design); plus a stream with an args entry of another leading dimension (must raise) '
        'and batch sizes <= 0 (outside the property: anything goes); non-trivial = n mod b != 0, or '
        'args present with per-example-distinct values')
EXHAUSTIVE = {'quick': False, 'thorough': True}
TRUSTED = ['the recording torch module (BatchNorm1d(eps=0, default running stats) + Dropout + integer '
           'encoding head) and its log of (training flag of every sub-module, grad, rows) per forward call; '
           'bitwise comparison of the batch-norm buffers before/after the call']
ASSUMPTIONS = ['the user model acts example-wise in evaluation mode (Section variable hs in '
               'c03_predict_examplewise; the harness module is one such model)',
               'torch slicing a[start:end] and torch.cat implement firstn/skipn and concatenation '
               '(exercised by every case)',
               '"X and args are not modified" is observed (bitwise comparison with clones), not modelled']
SHARD = 150


DTYPES = {'f32': torch.float32, 'f64': torch.float64, 'f16': torch.float16, 'i64': torch.int64,
          'bool': torch.bool, 'i32': torch.int32, 'int': torch.int64, 'float': torch.float32,
          'u8': torch.uint8, 'i8': torch.int8}
# dtype codes of the Coq model (cr_adt / c_adt / c_odt)
DCODE = {torch.float32: 0, torch.float64: 1, torch.float16: 2, torch.int64: 3, torch.bool: 4, torch.int32: 5,
         torch.uint8: 6, torch.int8: 7}


class Recorder(torch.nn.Module):
    """X goes through batch-norm and dropout in the parameters' dtype; the args bypass them and are
    encoded in float64, so an arg value that needs more than 24 significant bits stays exact.
    params=False: a module without parameters and buffers (dropout only): predict then takes the
    dtype from X and must hand X over uncast."""
    def __init__(self, width, kind, heads, params=True, oforms=None):
        super().__init__()
        if params:
            self.bn = torch.nn.BatchNorm1d(width, eps=0.0)
        self.drop = torch.nn.Dropout(0.5)
        self.kind, self.heads, self.params = kind, heads, params
        self.oforms = oforms or ['2d'] * max(heads, 1)     # per output: '1d' (batch,), '2d', '3d'
        self.log = []

    def forward(self, X, *args):
        self.log.append(([bool(m.training) for m in self.modules()], bool(torch.is_grad_enabled()),
                         X.detach().clone(), [a.detach().clone() for a in args]))
        x = X.reshape(X.shape[0], -1)
        x = self.drop(self.bn(x)) if self.params else self.drop(x.double())
        z = torch.cat([x.double()] + [a.reshape(a.shape[0], -1).double() for a in args], dim=1)
        def shaped(j):
            f = self.oforms[j]
            if f == '1d':       # one scalar per example: (j+1) * first entry of x_i, shape (batch,)
                return z[:, 0] * float(j + 1)
            y = z * float(j + 1)
            return y.reshape(y.shape[0], y.shape[1], 1) if f == '3d' else y

        if self.kind == 'tensor':
            return shaped(0)
        outs = [shaped(j) for j in range(self.heads)]
        return tuple(outs) if self.kind == 'tuple' else outs


def rows_of(t, exps=None):
    """tensor with leading dimension n -> n flattened rows of exact integers value * 2^exp (one
    exponent per column, default 0), or None if some entry is not such an integer"""
    t = t.detach().cpu().reshape(t.shape[0], -1).double()
    if not bool(torch.isfinite(t).all()):
        return None
    if exps is not None and t.shape[0] and len(exps) == t.shape[1]:
        t = t * torch.tensor([2.0 ** e for e in exps], dtype=torch.float64)[None, :]
    if not bool(torch.equal(t, t.round())) or bool((t.abs() >= 2.0 ** 62).any()):
        return None
    return t.to(torch.int64).tolist()


def prod(shape):
    w = 1
    for d in shape:
        w *= d
    return w


def arg_spec(inp, a):
    """(dtype name, exponent, trailing shape) of an arg; an alias of X takes X's"""
    if a.get('alias') == 'X':
        return inp.get('xdtype', 'f32'), 0, list(inp['xshape'])
    if isinstance(a.get('alias'), int):
        return arg_spec(inp, inp['args'][a['alias']])
    return a['dtype'], int(a.get('exp', 0)), list(a['shape'])


def arg_exp(inp, a):
    return arg_spec(inp, a)[1]


def arg_width(inp, a):
    return prod(arg_spec(inp, a)[2])


def as_view(t):
    """the same values as a non-contiguous view: every other row of a tensor twice as long"""
    big = torch.zeros([2 * t.shape[0]] + list(t.shape[1:]), dtype=t.dtype)
    big[0::2] = t
    if t.dtype != torch.bool:
        big[1::2] = 99
    return big[0::2]


def build(inp, x_rows=None):
    """X holds small integers (exact in every dtype used); arg rows are integers z, the tensor
    holds z / 2^exp in the arg's own dtype (the generator only asks for representable values).
    An arg may be the very same tensor object as an earlier arg or as X."""
    x_rows = inp['X'] if x_rows is None else x_rows
    n = len(x_rows)
    X = torch.tensor(x_rows, dtype=torch.float64).reshape([n] + list(inp['xshape'])).to(DTYPES[inp.get('xdtype', 'f32')])
    if inp.get('views'):
        X = as_view(X)
    args = []
    for a in inp['args']:
        if a.get('alias') == 'X':
            args.append(X)
            continue
        if isinstance(a.get('alias'), int):
            args.append(args[a['alias']])
            continue
        t = torch.tensor(a['rows'], dtype=torch.float64).reshape([len(a['rows'])] + list(a['shape']))
        t = (t / 2.0 ** int(a.get('exp', 0))).to(DTYPES[a['dtype']])
        args.append(as_view(t) if inp.get('views') else t)
    return X, args


def width_of(inp):
    return max(len(inp['X'][0]) if inp['X'] else prod(inp['xshape']), 1)


def out_exps(inp):
    e = [0] * width_of(inp)
    for a in inp['args']:
        e += [arg_exp(inp, a)] * arg_width(inp, a)
    return e


def oforms_of(inp):
    k = 1 if inp['kind'] == 'tensor' else inp['heads']
    if 'oforms' in inp:
        return list(inp['oforms'])[:k] + ['2d'] * max(0, k - len(inp['oforms']))
    return ['3d' if inp.get('out3d') else '2d'] * k


def head_exps(inp, j):
    return [0] if oforms_of(inp)[j] == '1d' else out_exps(inp)


def modes_of(inp):
    if 'modes' in inp:
        return [bool(t) for t in inp['modes']]
    return [bool(inp.get('train0', False))] * 3


def bsize(b, btype):
    import numpy
    if btype == 'np64':
        return numpy.int64(b)
    if btype == 'np32':
        return numpy.int32(b)
    return b


def eff_b(inp):
    """the batch size the call uses (the default 32 when it is not passed)"""
    return 32 if inp['b'] is None else inp['b']


def run_impl(inp):
    import contextlib
    import io
    from tangermeme.predict import predict
    x_final = inp['X']
    x_rows = x_final
    if inp.get('mutate') and x_final:
        # the caller changes X[0] in place between the prelude call(s) and the checked call
        x_rows = [list(r) for r in x_final]
        x_rows[0] = [v - 1 for v in x_rows[0]]
    X, args = build(inp, x_rows)
    model = Recorder(width_of(inp), inp['kind'], inp['heads'], params=not inp.get('noparams'),
                     oforms=oforms_of(inp))
    # leaves left over from an attribution / design step: X (and floating args) require grad
    if inp.get('xgrad') and X.is_floating_point() and X.is_leaf:
        X.requires_grad_(True)
    if inp.get('agrad'):
        seen = set()
        for a in args:
            if a.is_floating_point() and a.is_leaf and id(a) not in seen and a is not X:
                seen.add(id(a))
                a.requires_grad_(True)
    if not inp.get('noparams'):
        model = model.to(DTYPES[inp.get('mdtype', 'f32')])
    # the history of the module before the call: a training flag per module of model.modules()
    # (root, bn, drop) -- e.g. model.eval(); model.drop.train() gives [False, False, True]
    for m, t in zip(model.modules(), modes_of(inp)):
        m.training = bool(t)
    form = inp.get('args_form', 'tuple')
    if form == 'none' and not args:
        pargs = None
    elif form == 'list':
        pargs = list(args)
    else:
        pargs = tuple(args)
    device = torch.device('cpu') if inp.get('device_form') == 'obj' else 'cpu'

    def call(b, btype):
        kw = {'device': device}
        if b is not None:
            kw['batch_size'] = bsize(b, btype)
        if inp.get('verbose'):
            kw['verbose'] = True
        with contextlib.redirect_stderr(io.StringIO()):
            return predict(model, X, args=pargs, **kw)

    out = {'ok': False, 'ytype': None, 'y': None, 'meta': [], 'prelude_ok': True, 'detached': True}
    # earlier calls of the sequence: same module object, same X / args objects, another batch size
    X0, args0 = X.clone(), [a.clone() for a in args]
    for pre in inp.get('prelude', []):
        try:
            with torch.set_grad_enabled(bool(inp['grad0'])):
                call(pre['b'], 'int')
        except Exception:
            pass
    pre_unchanged = bool(torch.equal(X, X0) and all(torch.equal(a, b) for a, b in zip(args, args0)))
    if inp.get('mutate') and x_final:
        with torch.no_grad():
            X[0] += 1
    model.log = []
    out['state_before'] = [bool(m.training) for m in model.modules()]
    X0, args0 = X.clone(), [a.clone() for a in args]
    buf0 = [b.detach().clone() for b in model.buffers()]
    try:
        with torch.set_grad_enabled(bool(inp['grad0'])):
            y = call(inp['b'], inp.get('btype', 'int'))
        nh = len(oforms_of(inp))
        if isinstance(y, torch.Tensor):
            out.update(ok=True, ytype='T', y=rows_of(y, head_exps(inp, 0)), meta=[(DCODE.get(y.dtype, 99), list(y.shape))],
                       detached=not y.requires_grad and y.grad_fn is None)
        elif isinstance(y, (list, tuple)):
            out.update(ok=True, ytype='M', y=[rows_of(h, head_exps(inp, min(j, nh - 1))) for j, h in enumerate(y)],
                       meta=[(DCODE.get(h.dtype, 99), list(h.shape)) for h in y],
                       detached=all(not h.requires_grad and h.grad_fn is None for h in y))
        else:
            out.update(ok=True, ytype='?', y=None)
    except Exception as e:
        out['error'] = type(e).__name__
    trace = []
    specs = [arg_spec(inp, a) for a in inp['args']]
    for tr, gr, Xw, Aw in model.log:
        trace.append({'tr': tr, 'gr': gr, 'X': rows_of(Xw),
                      'args': [rows_of(a, [specs[k][1]] * prod(specs[k][2])) if k < len(specs) else rows_of(a)
                               for k, a in enumerate(Aw)],
                      'adt': [DCODE.get(a.dtype, 99) for a in Aw]})
    out['trace'] = trace
    out['buffers_unchanged'] = bool(all(torch.equal(a, b) for a, b in zip(model.buffers(), buf0)))
    out['unchanged'] = bool(pre_unchanged and torch.equal(X, X0) and X.dtype == X0.dtype and
                            all(torch.equal(a, b) and a.dtype == b.dtype for a, b in zip(args, args0)))
    return out


POISON = '[[(-777)]]'


def rows_lit(r):
    return POISON if r is None else C.zmat(r)


def arg_rows(inp, a):
    if a.get('alias') == 'X':
        return inp['X']
    if isinstance(a.get('alias'), int):
        return arg_rows(inp, inp['args'][a['alias']])
    return a['rows']


def arg_dtype(inp, a):
    if isinstance(a.get('alias'), int):
        return arg_dtype(inp, inp['args'][a['alias']])
    return arg_spec(inp, a)[0]


def coq_case(inp, out):
    kind = {'tensor': 'KTensor', 'tuple': 'KTuple', 'list': 'KList'}[inp['kind']]
    state = out.get('state_before', modes_of(inp))
    w = len(out_exps(inp))
    call = '(Call %s %s (MS %s %s) %s %s %s %s %s %s)' % (
        kind, C.nat(inp['heads']), C.lst([C.boolean(t) for t in state]), C.boolean(inp['grad0']), C.z(eff_b(inp)),
        C.zmat(inp['X']), C.lst([C.zmat(arg_rows(inp, a)) for a in inp['args']]),
        C.natlist([DCODE[DTYPES[arg_dtype(inp, a)]] for a in inp['args']]),
        C.nat(DCODE[torch.float64]),
        C.lst([C.zlist({'1d': [], '2d': [w], '3d': [w, 1]}[f]) for f in oforms_of(inp)]))
    if not out['ok']:
        val = 'Err'
    elif out['ytype'] == 'T':
        val = '(Ok (YT %s))' % rows_lit(out['y'])
    elif out['ytype'] == 'M':
        val = '(Ok (YM %s))' % C.lst([rows_lit(h) for h in out['y']])
    else:
        val = '(Ok (YT %s))' % POISON
    trace = C.lst(['(CR %s %s %s %s %s)' % (C.lst([C.boolean(x) for x in t['tr']]), C.boolean(t['gr']), rows_lit(t['X']),
                                            C.lst([rows_lit(a) for a in t['args']]), C.natlist(t['adt']))
                   for t in out['trace']])
    meta = C.lst(['(%s, %s)' % (C.nat(d), C.zlist(sh)) for d, sh in out.get('meta', [])])
    return '(%s, (%s, %s), %s, %s, %s, %s)' % (call, val, trace, C.boolean(out['unchanged']),
                                               C.boolean(out.get('buffers_unchanged', True)), meta,
                                               C.boolean(out.get('detached', True)))


def aligned(inp):
    return all(len(arg_rows(inp, a)) == len(inp['X']) for a in inp['args'])


def nontrivial(inp, out):
    n, b = len(inp['X']), eff_b(inp)
    if n < 1 or b < 1 or not aligned(inp) or not out['ok']:
        return False
    distinct = bool(inp['args']) and n > 1 and all(
        len({tuple(r) for r in arg_rows(inp, a)}) == n for a in inp['args'])
    return (n % b != 0) or distinct


def hist_key(inp, out):
    n, b = len(inp['X']), eff_b(inp)
    if n == 0:
        rel = 'n=0'
    elif not aligned(inp):
        rel = 'misaligned'
    elif b < 1:
        rel = 'b<1'
    elif b > n:
        rel = 'b>n'
    elif b == n:
        rel = 'b=n'
    else:
        rel = 'b|n' if n % b == 0 else 'b!|n'
    md = 'noparams' if inp.get('noparams') else inp.get('mdtype', 'f32')
    dts = 'same-dtype' if all(arg_dtype(inp, a) in (md, 'float') for a in inp['args']) else 'other-dtype'
    opts = [k for k in ('views', 'verbose', 'mutate', 'xgrad', 'agrad') if inp.get(k)]
    fo = set(oforms_of(inp))
    if fo != {'2d'}:
        opts.append('out-' + '+'.join(sorted(fo)))
    if inp['b'] is None:
        opts.append('b-default')
    if inp.get('btype', 'int') != 'int':
        opts.append('b-numpy')
    if inp.get('prelude'):
        opts.append('sequence')
    if any('alias' in a for a in inp['args']):
        opts.append('alias')
    if inp.get('device_form') == 'obj':
        opts.append('device-obj')
    return '%s/args%d/%s/%s/%s/x-%s/%s/%s/%s' % (
        inp['kind'], len(inp['args']), state_class(inp), 'model-' + md, dts if inp['args'] else 'noargs',
        inp.get('xdtype', 'f32'), '+'.join(opts) or 'plain', rel, 'ok' if out['ok'] else 'raise')


def state_class(inp):
    m = modes_of(inp)
    if all(m):
        return 'all-train'
    if not any(m):
        return 'all-eval'
    return 'root-eval+child-train' if not m[0] else 'root-train+child-eval'


# module histories: freshly constructed (everything training), fully eval'd, root in eval mode
# with some children back in training mode (model.eval(); model.drop.train() / a freshly built
# sub-module swapped in), root in training mode with a frozen child
STATES = [[True, True, True], [False, False, False],
          [False, True, False], [False, False, True], [False, True, True],
          [True, False, True], [True, True, False]]


def pick_state(rng):
    r = rng.random()
    if r < 0.25:
        return STATES[0]
    if r < 0.45:
        return STATES[1]
    if r < 0.85:
        return rng.choice(STATES[2:5])
    return rng.choice(STATES[5:])


# Arg flavours: dtype, scale exponent (value = z / 2^exp), first column as a function of (arg index,
# example tag).  The args keep their own dtype whatever the parameters' dtype is; several flavours
# hold values that are NOT representable in float32 (more than 24 significant bits), so a cast of the
# arg on its way to the model changes the value the model sees, not only the dtype.
FLAVOUR = {
    'i64-small': ('i64', 0, lambda k, t: 100 * (k + 1) + t),
    'f32-small': ('f32', 0, lambda k, t: 100 * (k + 1) + t),
    'f64-small': ('f64', 0, lambda k, t: 100 * (k + 1) + t),
    'f64-big': ('f64', 0, lambda k, t: 2 ** 24 + 1 + 2 * t + 200 * k),         # odd, above 2^24
    'f64-fine': ('f64', 30, lambda k, t: (10 * k + t) * 2 ** 30 + 1),            # t + 2^-30
    'i64-big': ('i64', 0, lambda k, t: 2 ** 40 + 1 + 2 * t + 200 * k),
    'f16': ('f16', 0, lambda k, t: 100 * (k + 1) + t),
    'f16-fine': ('f16', 3, lambda k, t: 8 * t + 1),                              # t + 1/8
    'i32': ('i32', 0, lambda k, t: 100 * (k + 1) + t),
    'bool': ('bool', 0, lambda k, t: t % 2),
}
FLAVOURS = ['i64-small', 'f32-small', 'f32-small', 'f64-small', 'f64-big', 'f64-big', 'f64-fine', 'f64-fine',
            'i64-big', 'f16', 'f16-fine', 'i32', 'bool']


def make(rng, n, b, nargs, kind, misalign=None):
    """one input; every arg gets its own permutation of example tags"""
    xshape = rng.choice([[1], [1], [2], [2, 1], [1, 2], []])
    xw = 1
    for d in xshape:
        xw *= d
    ids = list(range(1, n + 1))
    rng.shuffle(ids)
    X = [[ids[i]] + [rng.randint(0, 9) for _ in range(xw - 1)] for i in range(n)]
    args = []
    for k in range(nargs):
        shape = rng.choice([[], [1], [1], [2], [2, 1]])
        w = prod(shape)
        m = n
        if misalign is not None and k == misalign[0]:
            m = misalign[1]
        tags = list(range(1, m + 1))
        rng.shuffle(tags)
        fl = rng.choice(FLAVOURS)
        dt, exp, first = FLAVOUR[fl]
        rows = [[first(k, tags[i])] + [(rng.randint(0, 1) if dt == 'bool' else rng.randint(0, 9) * 2 ** exp)
                                       for _ in range(w - 1)] for i in range(m)]
        args.append({'rows': rows, 'shape': shape, 'dtype': dt, 'exp': exp, 'flavour': fl})
        if misalign is None and rng.random() < 0.04:
            # the very same tensor object passed again: an earlier arg, or X itself
            args[-1] = {'alias': rng.randrange(k)} if k > 0 and rng.random() < 0.5 else {'alias': 'X'}
    noparams = rng.random() < 0.08
    return {'kind': kind, 'heads': 1 if kind == 'tensor' else rng.randint(1, 3),
            'modes': pick_state(rng), 'grad0': rng.random() < 0.5, 'b': b,
            'mdtype': 'f64' if rng.random() < 0.15 else 'f32', 'noparams': noparams,
            'xdtype': rng.choice(['f32', 'f64']) if noparams else rng.choice(['f32'] * 6 + ['f64', 'i64', 'u8', 'i8']),
            'views': rng.random() < 0.08, 'verbose': rng.random() < 0.05,
            # output shapes: mostly 2-D; 1-D (batch,) and 3-D outputs alone and next to each other
            'oforms': [rng.choice(['2d'] * 7 + ['1d', '1d', '3d']) for _ in range(3)],
            # X / floating args are leaves that require grad (left over from an attribution step)
            'xgrad': rng.random() < 0.15, 'agrad': rng.random() < 0.08,
            'btype': rng.choice(['int'] * 8 + ['np64', 'np32']),
            'device_form': rng.choice(['str', 'str', 'obj']),
            'X': X, 'xshape': xshape, 'args': args,
            'args_form': rng.choice(['tuple', 'list', 'none'] if nargs == 0 else ['tuple', 'list'])}


KINDS = ['tensor', 'tuple', 'list']


def generate(tier, rng):
    quick = tier != 'thorough'
    if quick:
        grid = [1, 2, 3, 4, 5, 6, 7, 8, 9, 12, 16, 17, 25, 31, 32, 33, 40]
        t = 0
        for n in grid:
            for b in range(1, n + 4):
                for nargs in range(4):
                    yield make(rng, n, b, nargs, KINDS[t % 3])
                    t += 1
                t += 1
        for _ in range(150):
            n = rng.randint(1, 40)
            yield make(rng, n, rng.randint(1, n + 3), rng.randint(0, 3), rng.choice(KINDS))
    else:
        for n in range(1, 41):
            for b in range(1, n + 4):
                for nargs in range(4):
                    for kind in KINDS:
                        yield make(rng, n, b, nargs, kind)
    # an args entry whose leading dimension differs from X's must be rejected
    for _ in range(60 if quick else 400):
        n = rng.randint(1, 12)
        nargs = rng.randint(1, 3)
        m = rng.choice([x for x in (1, n - 1, n + 1, 2 * n, n + 2, 0) if x != n and x >= 0])
        yield make(rng, n, rng.randint(1, n + 3), nargs, rng.choice(KINDS),
                   misalign=(rng.randrange(nargs), m))
    # batch_size not passed (default 32) for n around and above 32, and very large batch sizes
    for _ in range(40 if quick else 300):
        n = rng.choice([1, 5, 31, 32, 33, 40, 64, 65, rng.randint(1, 70)])
        c = make(rng, n, None, rng.randint(0, 3), rng.choice(KINDS))
        if rng.random() < 0.2:
            c['b'] = rng.choice([10 ** 9, 2 ** 31, n * 1000])
            c['btype'] = rng.choice(['int', 'np64'])
        yield c
    # sequences in one process: the same module object and the same X / args objects are used for
    # one or two earlier calls with ANOTHER batch size (the first call leaves the module in eval
    # mode), optionally the caller changes X in place in between; the last call is the checked one
    for _ in range(80 if quick else 600):
        n = rng.randint(1, 12)
        c = make(rng, n, rng.randint(1, n + 3), rng.randint(0, 3), rng.choice(KINDS))
        c['prelude'] = [{'b': rng.randint(1, n + 3)} for _ in range(rng.randint(1, 2))]
        c['mutate'] = rng.random() < 0.5
        if c['mutate']:
            c['X'][0] = [v + 1 for v in c['X'][0]]      # stays distinct and small
        yield c
    # outside the quantifier (the spec is silent; the model still mirrors the code)
    for _ in range(12 if quick else 60):
        n = rng.randint(1, 6)
        yield make(rng, n, rng.choice([0, -1, -2]), rng.randint(0, 2), rng.choice(KINDS))
    for _ in range(4 if quick else 20):      # no example at all
        c = make(rng, 1, rng.randint(1, 3), 0, rng.choice(KINDS))
        c['X'] = []
        yield c


def shrink(inp):
    n = len(inp['X'])
    al = aligned(inp)
    if n > 1:
        for cut in (n // 2, 1):
            if cut >= 1:
                c = dict(inp)
                c['X'] = inp['X'][:n - cut]
                c['args'] = [a if 'rows' not in a else
                             dict(a, rows=a['rows'][:len(a['rows']) - cut] if (al or len(a['rows']) > cut) else a['rows'])
                             for a in inp['args']]
                yield c
    if inp['b'] is not None and inp['b'] > 1:
        yield dict(inp, b=inp['b'] - 1)
        yield dict(inp, b=max(1, inp['b'] // 2))
    if any(f != '2d' for f in oforms_of(inp)):
        yield dict(inp, oforms=['2d', '2d', '2d'], out3d=False)
    for k in ('views', 'verbose', 'noparams', 'agrad'):
        if inp.get(k):
            yield dict(inp, **{k: False})
    if inp.get('prelude'):
        yield dict(inp, prelude=inp['prelude'][1:])
    if not any(isinstance(a.get('alias'), int) for a in inp['args']):
        for k in range(len(inp['args'])):
            yield dict(inp, args=inp['args'][:k] + inp['args'][k + 1:])
    if inp['heads'] > 1:
        yield dict(inp, heads=inp['heads'] - 1)
    if any(modes_of(inp)) or inp['grad0']:
        yield dict(inp, modes=[False, False, False], grad0=False)
    m = modes_of(inp)
    for k in range(3):
        if m[k]:
            yield dict(inp, modes=m[:k] + [False] + m[k + 1:])


def search(rng, disagreeing):
    for _ in range(300):
        n = rng.randint(1, 9)
        yield make(rng, n, rng.randint(1, n + 3), rng.randint(0, 3), rng.choice(KINDS))
