"""C03 - predict is transparent to batching: correspondence with coq/C03.

The user model handed to tangermeme.predict.predict is a recording module that contains a
BatchNorm1d and a Dropout (so that train vs eval mode changes its output, and BatchNorm even
raises on a one-row batch in training mode) followed by an exact-integer encoding head:
output j of example i is (j+1) * (X[i] ++ args[0][i] ++ args[1][i] ++ ...).  Every forward call
appends (the training flag of EVERY module of model.modules(), torch.is_grad_enabled(), rows of X,
rows of every arg) to a log.  The module is handed over in varied states (all training, all eval,
root in eval mode with children in training mode, ...).  The returned value, the full call trace,
"inputs unmodified" and "batch-norm buffers unmodified" go to Coq, where the
executable model (equality) and the decidable spec are evaluated.
"""
import torch

from . import common as C

torch.set_num_threads(1)    # tiny tensors: intra-op threads only add contention

PID = 'C03'
IMPORTS = ['Base.PyList', 'C03.Model', 'C03.Spec']
CASE_TYPE = 'case'
CHECK = 'check_case'
RULE = ('n in 1..40 x batch_size in 1..n+3 x 0-3 extra args x {tensor, tuple, list} outputs '
        '(thorough: every combination; quick: every b for a grid of n, kinds rotated), module and '
        'autograd state before the call varied (per-module training flags: all training / all eval / root '
        'eval with bn and/or dropout in training mode / root training with a child in eval mode), X 2-D/3-D, args 1-D/2-D int64/float32, passed as '
        'tuple/list/None; per-example-distinct values in X and in every arg (independent '
        'permutations); args keep their own dtype: float32 / float64 / float16 / int64 / int32 / bool on a '
        'float32 or float64 model, including float64 values not representable in float32 (odd integers '
        'above 2^24, t + 2^-30) - recorded rows are exact (integers scaled by a per-arg power of two) and '
        'carry the dtype the model received; X float32 / float64 / int64 (cast to the parameter dtype by '
        'design); plus a stream with an args entry of another leading dimension (must raise) '
        'and batch sizes <= 0 (outside the property: anything goes); non-trivial = n mod b != 0, or '
        'args present with per-example-distinct values')
EXHAUSTIVE = {'quick': False, 'thorough': True}
TRUSTED = ['the recording torch module (BatchNorm1d(eps=0, default running stats) + Dropout + integer '
           'encoding head) and its log of (training flag of every sub-module, grad, rows) per forward call; '
           'bitwise comparison of the batch-norm buffers before/after the call']
ASSUMPTIONS = ['the user model acts example-wise in evaluation mode (Section variable hs in '
               'c03_predict_examplewise; the harness module is one such model)',
               'torch slicing a[start:end] and torch.cat implement firstn/skipn and concatenation '
               '(exercised by every case)',
               '"X and args are not modified" is observed (bitwise comparison with clones), not modelled']
SHARD = 150


DTYPES = {'f32': torch.float32, 'f64': torch.float64, 'f16': torch.float16, 'i64': torch.int64,
          'bool': torch.bool, 'i32': torch.int32, 'int': torch.int64, 'float': torch.float32}
# dtype codes of the Coq model (cr_adt / c_adt)
DCODE = {torch.float32: 0, torch.float64: 1, torch.float16: 2, torch.int64: 3, torch.bool: 4, torch.int32: 5}


class Recorder(torch.nn.Module):
    """X goes through batch-norm and dropout in the parameters' dtype; the args bypass them and are
    encoded in float64, so an arg value that needs more than 24 significant bits stays exact"""
    def __init__(self, width, kind, heads):
        super().__init__()
        self.bn = torch.nn.BatchNorm1d(width, eps=0.0)
        self.drop = torch.nn.Dropout(0.5)
        self.kind, self.heads = kind, heads
        self.log = []

    def forward(self, X, *args):
        self.log.append(([bool(m.training) for m in self.modules()], bool(torch.is_grad_enabled()),
                         X.detach().clone(), [a.detach().clone() for a in args]))
        x = self.drop(self.bn(X.reshape(X.shape[0], -1)))
        z = torch.cat([x.double()] + [a.reshape(a.shape[0], -1).double() for a in args], dim=1)
        if self.kind == 'tensor':
            return z
        outs = [z * float(j + 1) for j in range(self.heads)]
        return tuple(outs) if self.kind == 'tuple' else outs


def rows_of(t, exps=None):
    """tensor with leading dimension n -> n flattened rows of exact integers value * 2^exp (one
    exponent per column, default 0), or None if some entry is not such an integer"""
    t = t.detach().cpu().reshape(t.shape[0], -1).double()
    if not bool(torch.isfinite(t).all()):
        return None
    if exps is not None and t.shape[0] and len(exps) == t.shape[1]:
        t = t * torch.tensor([2.0 ** e for e in exps], dtype=torch.float64)[None, :]
    if not bool(torch.equal(t, t.round())) or bool((t.abs() >= 2.0 ** 62).any()):
        return None
    return t.to(torch.int64).tolist()


def arg_exp(a):
    return int(a.get('exp', 0))


def arg_width(a):
    w = 1
    for d in a['shape']:
        w *= d
    return w


def build(inp):
    """X holds small integers (exact in every dtype used); arg rows are integers z, the tensor
    holds z / 2^exp in the arg's own dtype (the generator only asks for representable values)"""
    n = len(inp['X'])
    X = torch.tensor(inp['X'], dtype=DTYPES[inp.get('xdtype', 'f32')]).reshape([n] + list(inp['xshape']))
    args = []
    for a in inp['args']:
        t = torch.tensor(a['rows'], dtype=torch.float64).reshape([len(a['rows'])] + list(a['shape']))
        t = (t / 2.0 ** arg_exp(a)).to(DTYPES[a['dtype']])
        args.append(t)
    return X, args


def width_of(inp):
    return max(len(inp['X'][0]) if inp['X'] else 1, 1)


def out_exps(inp):
    e = [0] * width_of(inp)
    for a in inp['args']:
        e += [arg_exp(a)] * arg_width(a)
    return e


def modes_of(inp):
    if 'modes' in inp:
        return [bool(t) for t in inp['modes']]
    return [bool(inp.get('train0', False))] * 3


def run_impl(inp):
    from tangermeme.predict import predict
    X, args = build(inp)
    X0, args0 = X.clone(), [a.clone() for a in args]
    model = Recorder(width_of(inp), inp['kind'], inp['heads']).to(DTYPES[inp.get('mdtype', 'f32')])
    oe = out_exps(inp)
    # the history of the module before the call: a training flag per module of model.modules()
    # (root, bn, drop) -- e.g. model.eval(); model.drop.train() gives [False, False, True]
    for m, t in zip(model.modules(), modes_of(inp)):
        m.training = bool(t)
    buf0 = [b.detach().clone() for b in model.buffers()]
    form = inp.get('args_form', 'tuple')
    if form == 'none' and not args:
        pargs = None
    elif form == 'list':
        pargs = list(args)
    else:
        pargs = tuple(args)
    out = {'ok': False, 'ytype': None, 'y': None}
    try:
        with torch.set_grad_enabled(bool(inp['grad0'])):
            y = predict(model, X, args=pargs, batch_size=inp['b'], device='cpu')
        if isinstance(y, torch.Tensor):
            out.update(ok=True, ytype='T', y=rows_of(y, oe))
        elif isinstance(y, (list, tuple)):
            out.update(ok=True, ytype='M', y=[rows_of(h, oe) for h in y])
        else:
            out.update(ok=True, ytype='?', y=None)
    except Exception as e:
        out['error'] = type(e).__name__
    trace = []
    for tr, gr, Xw, Aw in model.log:
        trace.append({'tr': tr, 'gr': gr, 'X': rows_of(Xw),
                      'args': [rows_of(a, [arg_exp(sp)] * arg_width(sp)) if k < len(inp['args']) else rows_of(a)
                               for k, (a, sp) in enumerate(zip(Aw, inp['args'] + [{}] * len(Aw)))],
                      'adt': [DCODE.get(a.dtype, 99) for a in Aw]})
    out['trace'] = trace
    out['buffers_unchanged'] = bool(all(torch.equal(a, b) for a, b in zip(model.buffers(), buf0)))
    out['unchanged'] = bool(torch.equal(X, X0) and X.dtype == X0.dtype and
                            all(torch.equal(a, b) and a.dtype == b.dtype for a, b in zip(args, args0)))
    return out


POISON = '[[(-777)]]'


def rows_lit(r):
    return POISON if r is None else C.zmat(r)


def coq_case(inp, out):
    kind = {'tensor': 'KTensor', 'tuple': 'KTuple', 'list': 'KList'}[inp['kind']]
    call = '(Call %s %s (MS %s %s) %s %s %s %s)' % (
        kind, C.nat(inp['heads']), C.lst([C.boolean(t) for t in modes_of(inp)]), C.boolean(inp['grad0']), C.z(inp['b']),
        C.zmat(inp['X']), C.lst([C.zmat(a['rows']) for a in inp['args']]),
        C.natlist([DCODE[DTYPES[a['dtype']]] for a in inp['args']]))
    if not out['ok']:
        val = 'Err'
    elif out['ytype'] == 'T':
        val = '(Ok (YT %s))' % rows_lit(out['y'])
    elif out['ytype'] == 'M':
        val = '(Ok (YM %s))' % C.lst([rows_lit(h) for h in out['y']])
    else:
        val = '(Ok (YT %s))' % POISON
    trace = C.lst(['(CR %s %s %s %s %s)' % (C.lst([C.boolean(x) for x in t['tr']]), C.boolean(t['gr']), rows_lit(t['X']),
                                            C.lst([rows_lit(a) for a in t['args']]), C.natlist(t['adt']))
                   for t in out['trace']])
    return '(%s, (%s, %s), %s, %s)' % (call, val, trace, C.boolean(out['unchanged']),
                                       C.boolean(out.get('buffers_unchanged', True)))


def aligned(inp):
    return all(len(a['rows']) == len(inp['X']) for a in inp['args'])


def nontrivial(inp, out):
    n, b = len(inp['X']), inp['b']
    if n < 1 or b < 1 or not aligned(inp) or not out['ok']:
        return False
    distinct = bool(inp['args']) and n > 1 and all(
        len({tuple(r) for r in a['rows']}) == n for a in inp['args'])
    return (n % b != 0) or distinct


def hist_key(inp, out):
    n, b = len(inp['X']), inp['b']
    if not aligned(inp):
        rel = 'misaligned'
    elif b < 1:
        rel = 'b<1'
    elif b > n:
        rel = 'b>n'
    elif b == n:
        rel = 'b=n'
    else:
        rel = 'b|n' if n % b == 0 else 'b!|n'
    md = inp.get('mdtype', 'f32')
    dts = 'same-dtype' if all(a['dtype'] in (md, 'float' if md == 'f32' else md) for a in inp['args']) else 'other-dtype'
    return '%s/args%d/%s/%s/%s/%s/%s' % (inp['kind'], len(inp['args']), state_class(inp), 'model-' + md,
                                         dts if inp['args'] else 'noargs', rel, 'ok' if out['ok'] else 'raise')


def state_class(inp):
    m = modes_of(inp)
    if all(m):
        return 'all-train'
    if not any(m):
        return 'all-eval'
    return 'root-eval+child-train' if not m[0] else 'root-train+child-eval'


# module histories: freshly constructed (everything training), fully eval'd, root in eval mode
# with some children back in training mode (model.eval(); model.drop.train() / a freshly built
# sub-module swapped in), root in training mode with a frozen child
STATES = [[True, True, True], [False, False, False],
          [False, True, False], [False, False, True], [False, True, True],
          [True, False, True], [True, True, False]]


def pick_state(rng):
    r = rng.random()
    if r < 0.25:
        return STATES[0]
    if r < 0.45:
        return STATES[1]
    if r < 0.85:
        return rng.choice(STATES[2:5])
    return rng.choice(STATES[5:])


# Arg flavours: dtype, scale exponent (value = z / 2^exp), first column as a function of (arg index,
# example tag).  The args keep their own dtype whatever the parameters' dtype is; several flavours
# hold values that are NOT representable in float32 (more than 24 significant bits), so a cast of the
# arg on its way to the model changes the value the model sees, not only the dtype.
FLAVOUR = {
    'i64-small': ('i64', 0, lambda k, t: 100 * (k + 1) + t),
    'f32-small': ('f32', 0, lambda k, t: 100 * (k + 1) + t),
    'f64-small': ('f64', 0, lambda k, t: 100 * (k + 1) + t),
    'f64-big': ('f64', 0, lambda k, t: 2 ** 24 + 1 + 2 * t + 200 * k),         # odd, above 2^24
    'f64-fine': ('f64', 30, lambda k, t: (10 * k + t) * 2 ** 30 + 1),            # t + 2^-30
    'i64-big': ('i64', 0, lambda k, t: 2 ** 40 + 1 + 2 * t + 200 * k),
    'f16': ('f16', 0, lambda k, t: 100 * (k + 1) + t),
    'f16-fine': ('f16', 3, lambda k, t: 8 * t + 1),                              # t + 1/8
    'i32': ('i32', 0, lambda k, t: 100 * (k + 1) + t),
    'bool': ('bool', 0, lambda k, t: t % 2),
}
FLAVOURS = ['i64-small', 'f32-small', 'f32-small', 'f64-small', 'f64-big', 'f64-big', 'f64-fine', 'f64-fine',
            'i64-big', 'f16', 'f16-fine', 'i32', 'bool']


def make(rng, n, b, nargs, kind, misalign=None):
    """one input; every arg gets its own permutation of example tags"""
    xshape = rng.choice([[1], [1], [2], [2, 1], [1, 2]])
    xw = 1
    for d in xshape:
        xw *= d
    ids = list(range(1, n + 1))
    rng.shuffle(ids)
    X = [[ids[i]] + [rng.randint(0, 9) for _ in range(xw - 1)] for i in range(n)]
    args = []
    for k in range(nargs):
        shape = rng.choice([[], [1], [1], [2]])
        w = 2 if shape == [2] else 1
        m = n
        if misalign is not None and k == misalign[0]:
            m = misalign[1]
        tags = list(range(1, m + 1))
        rng.shuffle(tags)
        fl = rng.choice(FLAVOURS)
        dt, exp, first = FLAVOUR[fl]
        rows = [[first(k, tags[i])] + [(rng.randint(0, 1) if dt == 'bool' else rng.randint(0, 9) * 2 ** exp)
                                       for _ in range(w - 1)] for i in range(m)]
        args.append({'rows': rows, 'shape': shape, 'dtype': dt, 'exp': exp, 'flavour': fl})
    return {'kind': kind, 'heads': 1 if kind == 'tensor' else rng.randint(1, 3),
            'modes': pick_state(rng), 'grad0': rng.random() < 0.5, 'b': b,
            'mdtype': 'f64' if rng.random() < 0.15 else 'f32',
            'xdtype': rng.choice(['f32'] * 6 + ['f64', 'i64']),
            'X': X, 'xshape': xshape, 'args': args,
            'args_form': rng.choice(['tuple', 'list', 'none'] if nargs == 0 else ['tuple', 'list'])}


KINDS = ['tensor', 'tuple', 'list']


def generate(tier, rng):
    quick = tier != 'thorough'
    if quick:
        grid = [1, 2, 3, 4, 5, 6, 7, 8, 9, 12, 16, 17, 25, 31, 32, 33, 40]
        t = 0
        for n in grid:
            for b in range(1, n + 4):
                for nargs in range(4):
                    yield make(rng, n, b, nargs, KINDS[t % 3])
                    t += 1
                t += 1
        for _ in range(150):
            n = rng.randint(1, 40)
            yield make(rng, n, rng.randint(1, n + 3), rng.randint(0, 3), rng.choice(KINDS))
    else:
        for n in range(1, 41):
            for b in range(1, n + 4):
                for nargs in range(4):
                    for kind in KINDS:
                        yield make(rng, n, b, nargs, kind)
    # an args entry whose leading dimension differs from X's must be rejected
    for _ in range(60 if quick else 400):
        n = rng.randint(1, 12)
        nargs = rng.randint(1, 3)
        m = rng.choice([x for x in (1, n - 1, n + 1, 2 * n, n + 2, 0) if x != n and x >= 0])
        yield make(rng, n, rng.randint(1, n + 3), nargs, rng.choice(KINDS),
                   misalign=(rng.randrange(nargs), m))
    # outside the quantifier (the spec is silent; the model still mirrors the code)
    for _ in range(12 if quick else 60):
        n = rng.randint(1, 6)
        yield make(rng, n, rng.choice([0, -1, -2]), rng.randint(0, 2), rng.choice(KINDS))


def shrink(inp):
    n = len(inp['X'])
    al = aligned(inp)
    if n > 1:
        for cut in (n // 2, 1):
            if cut >= 1:
                c = dict(inp)
                c['X'] = inp['X'][:n - cut]
                c['args'] = [dict(a, rows=a['rows'][:len(a['rows']) - cut] if (al or len(a['rows']) > cut) else a['rows'])
                             for a in inp['args']]
                yield c
    if inp['b'] > 1:
        yield dict(inp, b=inp['b'] - 1)
        yield dict(inp, b=max(1, inp['b'] // 2))
    for k in range(len(inp['args'])):
        yield dict(inp, args=inp['args'][:k] + inp['args'][k + 1:])
    if inp['heads'] > 1:
        yield dict(inp, heads=inp['heads'] - 1)
    if any(modes_of(inp)) or inp['grad0']:
        yield dict(inp, modes=[False, False, False], grad0=False)
    m = modes_of(inp)
    for k in range(3):
        if m[k]:
            yield dict(inp, modes=m[:k] + [False] + m[k + 1:])


def search(rng, disagreeing):
    for _ in range(300):
        n = rng.randint(1, 9)
        yield make(rng, n, rng.randint(1, n + 3), rng.randint(0, 3), rng.choice(KINDS))
