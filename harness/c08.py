"""C08 - perturbation wrappers evaluate exactly the input each output index denotes:
correspondence with coq/C08 (model + entry-by-entry spec).

The torch module handed to tangermeme is an injective exact-integer ENCODING of its own
inputs (marker of the output number, the one-hot row, every extra argument row), so each
entry of a wrapper's output, decoded, IS the input that was evaluated for that entry.  The
decoded entries are the outcome given to Coq, where the user function is instantiated with
the same identity encoding (Spec.hE); the theorems hold for every example-wise function h.
"""
import itertools

import numpy
import torch

from . import common as C

PID = 'C08'
COQ_DIRS = ['C01', 'C08']
IMPORTS = ['Base.OneHot', 'C01.Model', 'C08.Model', 'C08.Spec']
CASE_TYPE = 'case'
CHECK = 'check_case'
SHARD = 60
RULE = ('seeded random calls of marginalize / ablate / space / marginalize_annotations / '
        'ablate_annotations / apply_product / apply_pairwise with encoding models: batch 1-4, '
        'length 4-14, tensor output or tuples of 1-3 outputs (per-example output shapes (D,) and (2,D)), '
        '0-2 extra args with per-example-distinct rows, func in {predict, a tuple-returning custom '
        'func, deep_lift_shap(raw multipliers of a quadratic net), saturation_mutagenesis(raw)}, '
        'shuffle / dinucleotide_shuffle with n = 1..5 (replayed with the same seed), 1..6 annotations '
        '(!= number of outputs in most cases), spacing grids of 1-4 rows for 1-3 motifs, product '
        'argument sets of sizes 1..4 and arity 0..3 with batch_size in {1,2,3,4,5,7,32} (mostly not '
        'dividing the product), plus a small rejected stream (mis-sized args, spans off the edge); '
        'non-trivial = accepted call with at least two distinct indices along every output axis '
        'whose size is not fixed to 1 by the API')
TRUSTED = ['encoding torch modules (harness/c08.py: Enc, Quad) and the decoding of their outputs',
           'ablate: the expected shuffle j of example i is obtained by calling the same shuffle '
           'function with the same random_state from the harness']
ASSUMPTIONS = ['the user function acts example by example in batch order (Section variable h; '
               'exercised by every case through predict / deep_lift_shap / saturation_mutagenesis)',
               'what "motif substituted at p" / "motifs at spacing row s" denote is C01\'s: the spec '
               'constructs the substituted input position by position; for space it uses the C01 '
               'model of multisubstitute']
LETTERS = 'ACGTXY'


# ----------------------------------------------------------------------------------------
# encoding models

class Enc(torch.nn.Module):
    """output k of example (x, rows) = [k, x.flatten(), rows...]; odd outputs have shape (2, D)
    (second row = first + 1) so that per-example output shapes differ between outputs"""

    def __init__(self, nk):
        super().__init__()
        self.nk = nk

    def forward(self, X, *args):
        X = X.float()
        row = torch.cat([X.flatten(1)] + [a.flatten(1).float() for a in args], dim=1)
        outs = []
        for k in range(1 if self.nk is None else self.nk):
            y = torch.cat([torch.full((X.shape[0], 1), float(k)), row], dim=1)
            if k % 2 == 1:
                y = torch.stack([y, y + 1], dim=1)
            outs.append(y)
        return outs[0] if self.nk is None else tuple(outs)


class Quad(torch.nn.Module):
    """f(x, rows) = (1 + sum_i rows_i * 8^i) * sum(x*x): d f / d x = 2 c x identifies x and rows"""

    def forward(self, X, *args):
        c = torch.ones(X.shape[0])
        for i, a in enumerate(args):
            c = c + a.float().flatten(1)[:, 0] * (8 ** i)
        return ((X * X).sum(dim=(1, 2)) * c).unsqueeze(1)


def zero_refs(X, n=1, random_state=None, **kw):
    return torch.zeros(X.shape[0], n, *X.shape[1:])


def make_func(inp):
    from tangermeme.predict import predict
    f = inp.get('func', 'predict')
    if f == 'predict':
        return predict, {}
    if f == 'tuplefn':
        K = inp['fk']

        def tuplefn(model, X, args=None, batch_size=32, device='cpu', **kw):
            y = predict(model, X, args=args, batch_size=batch_size, device=device)
            outs = []
            for j in range(K):
                yj = y.clone()
                yj[..., 0] += j
                outs.append(yj)
            return tuple(outs)
        return tuplefn, {}
    if f == 'nested':
        K1 = inp['fk']

        def nested(model, X, args=None, batch_size=32, device='cpu', **kw):
            y = predict(model, X, args=args, batch_size=batch_size, device=device)
            res = []
            for t in range(K1):
                yt = []
                for yk in y:
                    yk = yk.clone()
                    yk[..., 0] += 100 * t
                    yt.append(yk)
                res.append(tuple(yt))
            return tuple(res)
        return nested, {}
    if f == 'dls':
        from tangermeme.deep_lift_shap import deep_lift_shap
        return deep_lift_shap, {'raw_outputs': True, 'n_shuffles': 1, 'references': zero_refs,
                                'warning_threshold': 1e9}
    if f == 'ism':
        from tangermeme.ism import saturation_mutagenesis
        return saturation_mutagenesis, {'raw_outputs': True}
    raise KeyError(f)


def make_model(inp):
    if inp.get('func') == 'dls':
        return Quad()
    return Enc(inp.get('nk'))


def eff_nk(inp):
    """number of outputs the wrapper sees: None = tensor, k = tuple of k"""
    f = inp.get('func', 'predict')
    if f == 'tuplefn':
        return inp['fk']
    if f == 'dls':
        return None
    if f == 'ism':
        return 2
    return inp.get('nk')


# ----------------------------------------------------------------------------------------
# tensors <-> nested lists

def column(A, k):
    c = [0] * A
    c[k] = 1
    return c


def to_tensor(A, seqs):
    B = len(seqs)
    L = len(seqs[0]) if B else 0
    X = torch.zeros(B, A, L, dtype=torch.float32)
    for b, s in enumerate(seqs):
        for p, k in enumerate(s):
            X[b, k, p] = 1
    return X


def ohe_list(Y):
    """(..., A, L) tensor -> nested [...][L][A] ints"""
    return Y.detach().transpose(-1, -2).round().to(torch.int64).tolist()


def arg_tensors(args):
    return None if not args else tuple(torch.tensor(a, dtype=torch.float32) for a in args)


BAD = (99, 99, [], [])


def decode_row(v, A, L, widths):
    """1-D tensor [marker, x.flatten(), rows...] -> (marker, dna [L][A], rows) or None"""
    D = 1 + A * L + sum(widths)
    if v.ndim != 1 or v.shape[0] != D or not torch.equal(v, v.round()):
        return None
    v = v.to(torch.int64).tolist()
    x = [[v[1 + a * L + l] for a in range(A)] for l in range(L)]
    rows, o = [], 1 + A * L
    for w in widths:
        rows.append(v[o:o + w])
        o += w
    return v[0], x, rows


def decode_leaf(y, A, L, widths, mode, pos):
    """per-example output tensor -> (t, k, dna, rows); BAD when it is not a well-formed encoding"""
    if mode == 'dls':
        if tuple(y.shape) != (1, A, L) or not torch.equal(y, y.round()):
            return BAD
        m = float(y.max())
        if m <= 0 or m % 2:
            return BAD
        c = int(m) // 2
        x = y[0] / (2 * c)
        if not torch.equal(x, x.round()):
            return BAD
        rows, r = [], c - 1
        for _ in widths:
            rows.append([r % 8])
            r //= 8
        if r:
            return BAD
        return 0, 0, ohe_list(x), rows
    if mode == 'ism1':
        # y: (A, L, D), entry (a, l) = encoding of the example with column l set to letter a
        if y.ndim != 3 or tuple(y.shape[:2]) != (A, L) or L < 2:
            return BAD
        ent = [[decode_row(y[a, l], A, L, widths) for l in range(L)] for a in range(A)]
        if any(e is None or e[0] != 0 for r in ent for e in r):
            return BAD
        base = [ent[0][(l + 1) % L][1][l] for l in range(L)]
        rows = ent[0][0][2]
        for a in range(A):
            for l in range(L):
                exp = [list(c) for c in base]
                exp[l] = column(A, a)
                if ent[a][l][1] != exp or ent[a][l][2] != rows:
                    return BAD
        return 0, 1, base, rows
    if y.ndim == 2:
        if y.shape[0] != 2 or not torch.equal(y[1], y[0] + 1):
            return BAD
        y = y[0]
    d = decode_row(y, A, L, widths)
    if d is None:
        return BAD
    m, x, rows = d
    if mode == 'k':
        t, k = 0, m
    elif mode == 't':
        t, k = m, 0
    else:
        t, k = divmod(m, 100)
    if not (0 <= t < 99 and 0 <= k < 99):
        return BAD
    return t, k, x, rows


def to_nd(y, rank, dec):
    """tensor whose first `rank` axes are index axes -> nested lists with decoded leaves"""
    if not isinstance(y, torch.Tensor) or y.ndim < rank:
        return ('leaf', BAD)
    if rank == 0:
        return ('leaf', dec(y))
    return ('node', [to_nd(y[i], rank - 1, dec) for i in range(y.shape[0])])


def as_list(y):
    return [y] if isinstance(y, torch.Tensor) else list(y)


# ----------------------------------------------------------------------------------------
# running the implementation

def shuffle_fn(name):
    from tangermeme import ersatz
    return ersatz.shuffle if name == 'shuffle' else ersatz.dinucleotide_shuffle


def replay_shuffle(inp, X):
    """what shuffle_fn returns for this call: [B][n][L][A], or None when it raises"""
    try:
        S = shuffle_fn(inp['shuf'])(X, start=inp['start'], end=inp['end'], n=inp['n'],
                                    random_state=inp['seed'])
        return ohe_list(S)
    except Exception:
        return None


def motif_arg(m):
    if m['form'] == 'str':
        return ''.join(LETTERS[k] for k in m['seqs'][0])
    return to_tensor(m['A'], m['seqs'])


def leaf_mode(inp, j=None):
    f = inp.get('func', 'predict')
    if f == 'dls':
        return 'dls'
    if f == 'ism':
        return 'ism1' if j == 1 else 'k'
    if inp['kind'] in ('prod', 'pair'):
        if f == 'nested':
            return 'tk'
        return 'k' if inp.get('nk') is None and f == 'predict' else 't'
    return 'k'


def run_impl(inp):
    from tangermeme.marginalize import marginalize, marginalize_annotations
    from tangermeme.ablate import ablate, ablate_annotations
    from tangermeme.space import space
    from tangermeme.product import apply_product, apply_pairwise
    kind = inp['kind']
    A = inp['A']
    alphabet = list(LETTERS[:A])
    X = to_tensor(A, inp['X'])
    L = X.shape[-1]
    args = arg_tensors(inp.get('args'))
    widths = [len(a[0]) for a in inp.get('args', [])]
    model = make_model(inp)
    func, fkw = make_func(inp)
    fkw = dict(fkw)
    kw = dict(batch_size=inp.get('bs', 32), device='cpu')
    try:
        if kind in ('prod', 'pair'):
            pargs = [torch.tensor(a, dtype=torch.float32) for a in inp['pargs']]
            widths = [len(a[0]) if a else 0 for a in inp['pargs']]
            f = apply_product if kind == 'prod' else apply_pairwise
            y = f(func, model, X, args=pargs, batch_size=inp['bs'], device='cpu')
            rank = 1 + len(pargs) if kind == 'prod' else 2
            if isinstance(y, torch.Tensor):
                ys = [[y]]
            elif all(isinstance(t, torch.Tensor) for t in y):
                ys = [[t] for t in y]
            else:
                ys = [list(t) for t in y]
            dec = lambda v: decode_leaf(v, A, L, widths, leaf_mode(inp), None)
            return {'ok': True, 'Y': [[to_nd(t, rank, dec) for t in r] for r in ys]}
        if args is not None:
            kw['args'] = args
        if kind == 'marg':
            if inp.get('func') in ('dls',):
                kw['random_state'] = 0
            yb, ya = marginalize(model, X, motif_arg(inp['M']), start=inp['start'],
                                 alphabet=alphabet, func=func, additional_func_kwargs=fkw, **kw)
            ranks = (1, 1)
        elif kind == 'abl':
            yb, ya = ablate(model, X, inp['start'], inp['end'], n=inp['n'],
                            shuffle_fn=shuffle_fn(inp['shuf']), random_state=inp['seed'],
                            func=func, additional_func_kwargs=fkw, **kw)
            ranks = (1, 2)
        elif kind == 'space':
            if inp.get('func') in ('dls',):
                kw['random_state'] = 0
            yb, ya = space(model, X, [motif_arg(m) for m in inp['Ms']], inp['grid'],
                           start=inp['start'], alphabet=alphabet, func=func,
                           additional_func_kwargs=fkw, **kw)
            ranks = (2, 2)
        elif kind == 'margann':
            X0 = to_tensor(A, inp['X0'])
            L = X0.shape[-1]
            ann = torch.tensor(inp['anns'], dtype=torch.int64).reshape(-1, 3)
            yb, ya = marginalize_annotations(model, X, X0, ann, start=inp['start'], func=func,
                                             additional_func_kwargs=fkw, **kw)
            ranks = (2, 2)
        elif kind == 'ablann':
            ann = torch.tensor(inp['anns'], dtype=torch.int64).reshape(-1, 3)
            yb, ya = ablate_annotations(model, X, ann, n=inp['n'], shuffle_fn=shuffle_fn(inp['shuf']),
                                        random_state=inp['seed'], func=func,
                                        additional_func_kwargs=fkw, **kw)
            ranks = (2, 3)
        else:
            raise KeyError(kind)
        out = []
        for y, rank in zip((yb, ya), ranks):
            ys = as_list(y)
            out.append([to_nd(t, rank, (lambda v, j=j: decode_leaf(v, A, L, widths, leaf_mode(inp, j), j)))
                        for j, t in enumerate(ys)])
        return {'ok': True, 'Y': out}
    except Exception as e:
        return {'ok': False, 'Y': None, 'err': '%s: %s' % (type(e).__name__, str(e)[:200])}


# ----------------------------------------------------------------------------------------
# Coq literals

def dna_lit(x):
    return C.lst([C.zlist(c) for c in x])


def tensor_lit(A, seqs):
    L = len(seqs[0]) if seqs else 0
    return '(T %s %s %s)' % (C.nat(A), C.nat(L),
                             C.batch_lit([[column(A, k) for k in s] for s in seqs]))


def batch_of(A, seqs):
    return C.batch_lit([[column(A, k) for k in s] for s in seqs])


def args_lit(args):
    return C.lst([C.zmat(a) for a in (args or [])])


def nk_lit(nk):
    return 'None' if nk is None else '(Some %s)' % C.nat(nk)


def nd_lit(t):
    tag, v = t
    if tag == 'leaf':
        tt, k, x, rows = v
        return '(Leaf (%s, %s, (%s, %s)))' % (C.nat(tt), C.nat(k), dna_lit(x), C.zmat(rows))
    return '(Node %s)' % C.lst([nd_lit(c) for c in v])


def shuf_lit(S):
    if S is None:
        return 'None'
    return '(Some %s)' % C.lst([C.lst([dna_lit(x) for x in r]) for r in S])


def sh_lit(inp):
    f = inp.get('func', 'predict')
    nk = inp.get('nk')
    if f == 'nested':
        return '(OLL %s %s)' % (C.nat(inp['fk']), C.nat(nk))
    if f == 'tuplefn':
        return '(OL %s)' % C.nat(inp['fk'])
    return 'OT' if nk is None else '(OL %s)' % C.nat(nk)


def coq_case(inp, out):
    kind = inp['kind']
    A = inp['A']
    nk = nk_lit(eff_nk(inp))
    args = args_lit(inp.get('args'))
    if kind == 'marg':
        m = inp['M']
        call = '(CMarg %s %s %s %s %s)' % (nk, tensor_lit(A, inp['X']), tensor_lit(m['A'], m['seqs']),
                                           C.opt(inp['start']), args)
    elif kind == 'abl':
        S = replay_shuffle(inp, to_tensor(A, inp['X']))
        call = '(CAbl %s %s %s %s %s)' % (nk, batch_of(A, inp['X']), C.nat(inp['n']), shuf_lit(S), args)
    elif kind == 'space':
        call = '(CSpace %s %s %s %s %s %s)' % (
            nk, tensor_lit(A, inp['X']), C.lst([tensor_lit(m['A'], m['seqs']) for m in inp['Ms']]),
            C.zmat(inp['grid']), C.opt(inp['start']), args)
    elif kind == 'margann':
        anns = C.lst(['(%s, %s, %s)' % tuple(C.nat(v) for v in a) for a in inp['anns']])
        call = '(CMargAnn %s %s %s %s %s %s)' % (nk, tensor_lit(A, inp['X']), tensor_lit(A, inp['X0']),
                                                 anns, C.opt(inp['start']), args)
    elif kind == 'ablann':
        X = to_tensor(A, inp['X'])
        Ss = []
        for idx, s, e in inp['anns']:
            Ss.append(shuf_lit(replay_shuffle(dict(inp, start=s, end=e), X[idx:idx + 1])))
        call = '(CAblAnn %s %s %s %s %s %s)' % (nk, batch_of(A, inp['X']),
                                                C.natlist([a[0] for a in inp['anns']]), C.nat(inp['n']),
                                                C.lst(Ss), args)
    else:
        call = '(%s %s %s %s %s)' % ('CProd' if kind == 'prod' else 'CPair', sh_lit(inp),
                                     batch_of(A, inp['X']), args_lit(inp['pargs']), C.nat(inp['bs']))
    if out['ok']:
        o = '(Ok %s)' % C.lst([C.lst([nd_lit(t) for t in r]) for r in out['Y']])
    else:
        o = 'Err'
    return '(%s, %s)' % (call, o)


# ----------------------------------------------------------------------------------------
# evidence helpers

def nontrivial(inp, out):
    if not out['ok']:
        return False
    kind = inp['kind']
    B = len(inp['X'])
    if kind == 'marg':
        return B >= 2
    if kind == 'abl':
        return B >= 2 and inp['n'] >= 2
    if kind == 'space':
        return B >= 2 and len(inp['grid']) >= 2
    if kind == 'margann':
        return len(inp['anns']) >= 2 and len(inp['X0']) >= 2
    if kind == 'ablann':
        return len(inp['anns']) >= 2 and inp['n'] >= 2
    if kind == 'prod':
        return B >= 2 and all(len(a) >= 2 for a in inp['pargs'])
    return B >= 2 and len(inp['pargs'][0]) >= 2


def hist_key(inp, out):
    return '%s/%s/%s/%s' % (inp['kind'], inp.get('func', 'predict'),
                            'T' if eff_nk(inp) is None else eff_nk(inp), 'ok' if out['ok'] else 'raise')


def tags(inp, out):
    return set()


# ----------------------------------------------------------------------------------------
# generators

def rand_seq(rng, A, L):
    return [rng.randrange(A) for _ in range(L)]


def diverse_seq(rng, A, L):
    while True:
        s = rand_seq(rng, A, L)
        if len(set(s)) >= min(A, 3):
            return s


def rand_args(rng, B, small=False, n=None):
    """0-2 extra inputs, every row distinct from every other example's"""
    n = rng.choice([0, 1, 1, 2, 2]) if n is None else n
    out = []
    for j in range(n):
        if small:
            perm = rng.sample(range(8), B)
            out.append([[perm[i]] for i in range(B)])
        else:
            w = rng.choice([1, 2])
            base = rng.randrange(50)
            out.append([[base + 10 * j + 3 * i + c + 100 * c * (i + 1) for c in range(w)] for i in range(B)])
    return out


def rand_model(rng, inp, allow=('predict', 'predict', 'predict', 'tuplefn', 'dls', 'ism')):
    f = rng.choice(allow)
    inp['func'] = f
    if f == 'predict':
        inp['nk'] = rng.choice([None, 1, 2, 2, 3, 3])
    elif f == 'tuplefn':
        inp['nk'] = None
        inp['fk'] = rng.randint(1, 3)
    else:
        inp['nk'] = None
    return f


def rand_motif(rng, A, m, B, allow_str=True):
    Bm = rng.choice([1, 1, B])
    form = 'str' if (allow_str and Bm == 1 and rng.random() < 0.4) else 'tensor'
    return {'form': form, 'A': A, 'seqs': [rand_seq(rng, A, m) for _ in range(Bm)]}


def gen_one(rng, kind):
    A = 4 if rng.random() < 0.8 else rng.choice([2, 3, 5])
    B = rng.choice([1, 2, 2, 3, 3, 4])
    L = rng.randint(4, 14)
    inp = {'kind': kind, 'A': A, 'bs': rng.choice([1, 2, 3, 5, 32])}
    if kind in ('prod', 'pair'):
        f = rng.choice(['predict', 'predict', 'tuplefn', 'nested'])
        inp['func'] = f
        if f == 'predict':
            inp['nk'] = rng.choice([None, 1, 2, 3])
        elif f == 'tuplefn':
            inp['nk'], inp['fk'] = None, rng.randint(1, 3)
        else:
            inp['nk'], inp['fk'] = rng.randint(1, 3), rng.randint(1, 2)
        L = rng.randint(2, 6)
        inp['X'] = [rand_seq(rng, A, L) for _ in range(B)]
        if kind == 'prod':
            m = rng.choice([0, 1, 1, 2, 2, 3])
            sizes = [rng.randint(1, 4) for _ in range(m)]
        else:
            m = rng.choice([1, 1, 2, 3])
            sizes = [rng.randint(1, 4)] * m
        pargs = []
        for j, n in enumerate(sizes):
            w = rng.choice([1, 2])
            base = rng.randrange(40)
            pargs.append([[base + 7 * j + 3 * i + 50 * c for c in range(w)] for i in range(n)])
        inp['pargs'] = pargs
        total = B * (numpy.prod(sizes, dtype=int) if kind == 'prod' else (sizes[0] if sizes else 1))
        cands = [b for b in (1, 2, 3, 4, 5, 7, 32) if total % b] or [1, 2, 3]
        inp['bs'] = int(rng.choice(cands + cands + [1, 2, 3, 4, 5, 7, 32]))
        return inp
    dls = None
    if kind == 'margann':
        f = rand_model(rng, inp, ('predict', 'predict', 'predict', 'tuplefn', 'dls'))
        BX = rng.randint(1, 3)
        LX = rng.randint(4, 12)
        inp['X'] = [rand_seq(rng, A, LX) for _ in range(BX)]
        inp['X0'] = [rand_seq(rng, A, L) for _ in range(B)]
        na = rng.randint(1, 6)
        anns = []
        for _ in range(na):
            s = rng.randrange(LX)
            e = rng.randint(s + 1, min(LX, s + L))
            anns.append([rng.randrange(BX), s, e])
        inp['anns'] = anns
        mx = max(e - s for _, s, e in anns)
        inp['start'] = None if rng.random() < 0.3 else rng.randint(0, L - mx)
        inp['args'] = rand_args(rng, B, small=(f == 'dls'))
        return inp
    f = rand_model(rng, inp)
    if f == 'ism':
        L = rng.randint(3, 6)
    if kind == 'ablann':
        inp['X'] = [rand_seq(rng, A, L) for _ in range(B)]
        na = rng.randint(1, 6)
        anns = []
        for _ in range(na):
            s = rng.randrange(L)
            e = rng.randint(s + 1, L)
            anns.append([rng.randrange(B), s, e])
        inp['anns'] = anns
        inp['n'] = rng.randint(1, 5)
        inp['shuf'] = 'shuffle'
        inp['seed'] = rng.randint(0, 10 ** 6)
        inp['args'] = rand_args(rng, 1, small=(f == 'dls'))
        return inp
    inp['X'] = [rand_seq(rng, A, L) for _ in range(B)]
    inp['args'] = rand_args(rng, B, small=(f == 'dls'))
    if kind == 'marg':
        m = rng.randint(1, min(4, L))
        inp['M'] = rand_motif(rng, A, m, B, allow_str=(A == 4))
        inp['start'] = None if rng.random() < 0.25 else rng.randint(0, L - m)
    elif kind == 'abl':
        dinuc = A == 4 and rng.random() < 0.25 and f != 'ism'
        if dinuc:
            L = rng.randint(12, 16)
            inp['X'] = [diverse_seq(rng, A, L) for _ in range(B)]
            inp['start'], inp['end'] = rng.randint(0, 2), L - rng.randint(0, 2)
        else:
            s = rng.randrange(L)
            inp['start'], inp['end'] = s, rng.randint(s + 1, L)
        inp['shuf'] = 'dinuc' if dinuc else 'shuffle'
        inp['n'] = rng.randint(1, 5)
        inp['seed'] = rng.randint(0, 10 ** 6)
    elif kind == 'space':
        nm = rng.choice([1, 2, 2, 3])
        Ms = [rand_motif(rng, A, rng.randint(1, 2), B, allow_str=(A == 4)) for _ in range(nm)]
        tot = sum(len(m['seqs'][0]) for m in Ms)
        room = max(0, L - tot)
        rows = rng.randint(1, 4)
        grid = []
        for _ in range(rows):
            r, left = [], room
            for _j in range(nm - 1):
                g = rng.randint(0, min(left, 3))
                r.append(g)
                left -= g
            grid.append(r)
        inp['Ms'], inp['grid'] = Ms, grid
        mx = max([sum(r) for r in grid]) if nm > 1 else 0
        inp['start'] = None if rng.random() < 0.25 else rng.randint(0, max(0, L - tot - mx))
    return inp


def reject_one(rng):
    """calls the code rejects (and the model too): mis-sized extra inputs, spans off the edge"""
    kind = rng.choice(['marg', 'abl', 'space', 'prod0'])
    if kind == 'prod0':
        inp = gen_one(rng, 'prod')
        inp['bs'] = rng.choice([1, 2])
        inp['pargs'] = inp['pargs'] + [[]]
        return inp
    inp = gen_one(rng, kind)
    while inp.get('func') not in ('predict', 'tuplefn'):
        inp = gen_one(rng, kind)
    B = len(inp['X'])
    L = len(inp['X'][0])
    if rng.random() < 0.5 or kind == 'abl':
        a = rand_args(rng, B + 1, n=1)
        inp['args'] = (inp['args'] + a)[-2:]
    elif kind == 'marg':
        m = len(inp['M']['seqs'][0])
        inp['start'] = rng.choice([L - m + 1, L, -1, L + 2])
    else:
        inp['start'] = L
    return inp


KINDS = ['marg', 'marg', 'abl', 'abl', 'space', 'space', 'margann', 'margann', 'ablann', 'ablann',
         'prod', 'prod', 'prod', 'pair']


def generate(tier, rng):
    n = 1100 if tier != 'thorough' else 9000
    for i in range(n):
        if i % 25 == 24:
            yield reject_one(rng)
        else:
            yield gen_one(rng, KINDS[i % len(KINDS)])


def shrink(inp):
    kind = inp['kind']
    B = len(inp['X'])
    if kind in ('marg', 'abl', 'space') and B > 1:
        for i in range(B):
            c = dict(inp)
            c['X'] = inp['X'][:i] + inp['X'][i + 1:]
            c['args'] = [a[:i] + a[i + 1:] for a in inp.get('args', [])]
            if kind == 'marg' and len(inp['M']['seqs']) == B:
                c['M'] = dict(inp['M'], seqs=inp['M']['seqs'][:i] + inp['M']['seqs'][i + 1:])
            if kind == 'space':
                c['Ms'] = [dict(m, seqs=(m['seqs'][:i] + m['seqs'][i + 1:]) if len(m['seqs']) == B else m['seqs'])
                           for m in inp['Ms']]
            yield c
    if kind in ('abl', 'ablann') and inp['n'] > 1:
        yield dict(inp, n=inp['n'] - 1)
    if kind in ('margann', 'ablann') and len(inp['anns']) > 1:
        for i in range(len(inp['anns'])):
            yield dict(inp, anns=inp['anns'][:i] + inp['anns'][i + 1:])
    if kind == 'margann' and len(inp['X0']) > 1:
        for i in range(len(inp['X0'])):
            yield dict(inp, X0=inp['X0'][:i] + inp['X0'][i + 1:],
                       args=[a[:i] + a[i + 1:] for a in inp.get('args', [])])
    if kind == 'space' and len(inp['grid']) > 1:
        for i in range(len(inp['grid'])):
            yield dict(inp, grid=inp['grid'][:i] + inp['grid'][i + 1:])
    if kind in ('prod', 'pair'):
        if B > 1:
            for i in range(B):
                yield dict(inp, X=inp['X'][:i] + inp['X'][i + 1:])
        if kind == 'prod':
            for j, a in enumerate(inp['pargs']):
                if len(a) > 1:
                    yield dict(inp, pargs=inp['pargs'][:j] + [a[:-1]] + inp['pargs'][j + 1:])
            if len(inp['pargs']) > 1:
                yield dict(inp, pargs=inp['pargs'][:-1])
        elif len(inp['pargs'][0]) > 1:
            yield dict(inp, pargs=[a[:-1] for a in inp['pargs']])
    if inp.get('args'):
        yield dict(inp, args=inp['args'][:-1])
