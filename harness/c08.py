"""C08 - perturbation wrappers evaluate exactly the input each output index denotes:
correspondence with coq/C08 (model + entry-by-entry spec).

The torch module handed to tangermeme is an injective exact-integer ENCODING of its own
inputs (marker of the output number, the one-hot row, every extra argument row), so each
entry of a wrapper's output, decoded, IS the input that was evaluated for that entry.  The
decoded entries are the outcome given to Coq, where the user function is instantiated with
the same identity encoding (Spec.hEd); the theorems hold for every example-wise function h.

An input may carry 'pre': a list of earlier calls executed first IN THE SAME PROCESS with the
same model / func / kwargs-dict / tensor objects (objects are shared whenever their content is
equal), so that state kept between calls or keyed on an incomplete key shows up in the last
call, which is the one that is checked.
"""
import contextlib
import copy
import io
import json

import numpy
import torch

from . import common as C

PID = 'C08'
COQ_DIRS = ['C01', 'C08']
IMPORTS = ['Base.OneHot', 'C01.Model', 'C08.Model', 'C08.Spec']
CASE_TYPE = 'case'
CHECK = 'check_case'
SHARD = 60
RULE = ('calls of marginalize / ablate / space / marginalize_annotations / ablate_annotations / '
        'apply_product / apply_pairwise with encoding models.  Random stream: batch 1-4, length 4-14, '
        'alphabets 2-5, tensor output or tuples of 1-3 outputs (per-example output shapes (D,) and (2,D)), '
        '0-2 extra args with per-example-distinct rows (tuple/list, float32/float64/int64, row shapes '
        '(w,), (w,1), (1,w)), X as float32/float64/int8/int64, motifs as str (any alphabet) or tensor '
        '(int8/float32, shared or per example), start as int / numpy.int64 / None, func in {predict, a '
        'tuple-returning custom func, deep_lift_shap(raw multipliers of a quadratic net), '
        'saturation_mutagenesis(raw); under apply_*: also marginalize and a nested-tuple func}, func '
        'kwargs routed through **kwargs or additional_func_kwargs, batch_size given or defaulted, '
        'shuffle / dinucleotide_shuffle / a user shuffle_fn with n = 1..5 or the default 20, random_state '
        'as int / numpy.int64 / RandomState object (replayed), negative `end`, 1..6 annotations as int64 / '
        'int32 tensor, numpy array or list, spacing grids of 1-4 rows for 1-3 motifs as list / numpy / '
        'int32 / int64 tensor, verbose on/off, product argument sets of sizes 1..4 and arity 0..3 with '
        'multi-dimensional rows and batch_size in {1,2,3,4,5,7,32,default}.  Boundary stream: spans at '
        'position 0 / ending at L / full length / one column, duplicate annotations and equal coordinates '
        'on different examples, default start with spacing rows of different totals, batch_size equal to '
        'B, B*n, the product size and one more/less.  Sequence stream: 2-3 calls in one process on the '
        'same objects with ONE thing changed (X, args, seed, n, start, motif, grid, annotation example '
        'index / coordinates, argument sets, batch_size, number of outputs).  Rejected stream: mis-sized '
        'args, spans off the edge, empty argument set.  Every case also checks that the caller\'s '
        'tensors / arrays / lists are unmodified and how the result is packaged.  Non-trivial = accepted '
        'call with at least two distinct indices along every output axis whose size is not fixed to 1 '
        'by the API')
TRUSTED = ['encoding torch modules (harness/c08.py: Enc, Quad) and the decoding of their outputs',
           'ablate: the expected shuffle j of example i is obtained by calling the same shuffle '
           'function with the same random_state (same type, fresh object) from the harness']
ASSUMPTIONS = ['the user function acts example by example in batch order (Section variable h; '
               'exercised by every case through predict / deep_lift_shap / saturation_mutagenesis / marginalize)',
               'what "motif substituted at p" / "motifs at spacing row s" denote is C01\'s: the spec '
               'constructs the substituted input position by position; for space it uses the C01 '
               'model of multisubstitute',
               '"caller data unmodified" and the packaging (tensor / list / list of lists) are observed '
               'by the harness and required by check_case next to spec_ok']
LETTERS = 'ACGTXY'
DT = {'f32': torch.float32, 'f64': torch.float64, 'i8': torch.int8, 'i64': torch.int64}


# ----------------------------------------------------------------------------------------
# encoding models

class Enc(torch.nn.Module):
    """output k of example (x, rows) = [k, x.flatten(), rows...]; odd outputs have shape (2, D)
    (second row = first + 1) so that per-example output shapes differ between outputs"""

    def __init__(self, nk):
        super().__init__()
        self.nk = nk

    def forward(self, X, *args):
        X = X.float()
        parts = [X.flatten(1)]
        for a in args:      # the row, then a code of the row's shape (so reshaped rows are noticed)
            parts += [a.flatten(1).float(), torch.full((X.shape[0], 1), float(shape_code(a)))]
        row = torch.cat(parts, dim=1)
        outs = []
        for k in range(1 if self.nk is None else self.nk):
            y = torch.cat([torch.full((X.shape[0], 1), float(k)), row], dim=1)
            if k % 2 == 1:
                y = torch.stack([y, y + 1], dim=1)
            outs.append(y)
        return outs[0] if self.nk is None else tuple(outs)


def shape_code(a):
    return 100 * a.ndim + 10 * (a.shape[1] if a.ndim > 1 else 0) + (a.shape[2] if a.ndim > 2 else 0)


def expected_code(w, sh):
    return {'flat': 200 + 10 * w, 'col': 300 + 10 * w + 1, 'row': 300 + 10 + w}[sh]


class Quad(torch.nn.Module):
    """f(x, rows) = (1 + sum_i rows_i * 8^i) * sum(x*x): d f / d x = 2 c x identifies x and rows"""

    def forward(self, X, *args):
        c = torch.ones(X.shape[0], dtype=X.dtype)
        for i, a in enumerate(args):
            c = c + a.to(X.dtype).flatten(1)[:, 0] * (8 ** i)
        return ((X * X).sum(dim=(1, 2)) * c).unsqueeze(1)


def zero_refs(X, n=1, random_state=None, **kw):
    return torch.zeros(X.shape[0], n, *X.shape[1:], dtype=X.dtype)


def custom_shuffle(X, start=0, end=-1, n=1, random_state=None):
    """a user-supplied shuffle_fn: 'shuffle' j rotates the region by (seed + j + 1) columns"""
    L = X.shape[-1]
    if end < 0:
        end = L + 1 + end
    if end <= start or end > L or start < 0:
        raise ValueError('bad region')
    if isinstance(random_state, numpy.random.RandomState):
        r = int(random_state.randint(0, 1000))
    else:
        r = int(random_state)
    outs = []
    for j in range(n):
        Xj = X.clone()
        Xj[:, :, start:end] = torch.roll(X[:, :, start:end], shifts=(r + j + 1) % (end - start), dims=-1)
        outs.append(Xj)
    return torch.stack(outs, dim=1)


def func_key(inp):
    return json.dumps([inp.get('func', 'predict'), inp.get('fk')])


def make_func(inp):
    from tangermeme.predict import predict
    f = inp.get('func', 'predict')
    if f == 'predict':
        return predict, {}
    if f == 'tuplefn':
        K = inp['fk']

        def tuplefn(model, X, args=None, batch_size=32, device='cpu', **kw):
            y = predict(model, X, args=args, batch_size=batch_size, device=device)
            outs = []
            for j in range(K):
                yj = y.clone()
                yj[..., 0] += j
                outs.append(yj)
            return tuple(outs)
        return tuplefn, {}
    if f == 'nested':
        K1 = inp['fk']

        def nested(model, X, args=None, batch_size=32, device='cpu', **kw):
            y = predict(model, X, args=args, batch_size=batch_size, device=device)
            res = []
            for t in range(K1):
                yt = []
                for yk in y:
                    yk = yk.clone()
                    yk[..., 0] += 100 * t
                    yt.append(yk)
                res.append(tuple(yt))
            return tuple(res)
        return nested, {}
    if f == 'dls':
        from tangermeme.deep_lift_shap import deep_lift_shap
        return deep_lift_shap, {'raw_outputs': True, 'n_shuffles': 1, 'references': zero_refs,
                                'warning_threshold': 1e9}
    if f == 'ism':
        from tangermeme.ism import saturation_mutagenesis
        return saturation_mutagenesis, {'raw_outputs': True}
    if f == 'marginalize':
        from tangermeme.marginalize import marginalize
        return marginalize, {}
    raise KeyError(f)


def make_model(inp):
    if inp.get('func') == 'dls':
        return Quad()
    return Enc(inp.get('nk'))


def eff_nk(inp):
    """number of outputs the wrapper sees: None = tensor, k = tuple of k"""
    f = inp.get('func', 'predict')
    if f == 'tuplefn':
        return inp['fk']
    if f == 'dls':
        return None
    if f == 'ism':
        return 2
    return inp.get('nk')


# ----------------------------------------------------------------------------------------
# tensors <-> nested lists

def column(A, k):
    c = [0] * A
    c[k] = 1
    return c


def to_tensor(A, seqs, dt='f32'):
    B = len(seqs)
    L = len(seqs[0]) if B else 0
    X = torch.zeros(B, A, L, dtype=torch.float32)
    for b, s in enumerate(seqs):
        for p, k in enumerate(s):
            X[b, k, p] = 1
    return X.to(DT[dt])


def ohe_list(Y):
    """(..., A, L) tensor -> nested [...][L][A] ints"""
    return Y.detach().transpose(-1, -2).round().to(torch.int64).tolist()


def arg_tensor(a, dt='f32', sh='flat'):
    t = torch.tensor(a, dtype=DT[dt])
    if t.ndim == 2 and sh == 'col':
        t = t.unsqueeze(2)
    elif t.ndim == 2 and sh == 'row':
        t = t.unsqueeze(1)
    return t


BAD = (99, 99, [], [])


def decode_row(v, A, L, widths):
    """1-D tensor [marker, x.flatten(), (row, shape code)...] -> (marker, dna [L][A], rows) or None;
    widths: list of (w, row-shape form)"""
    D = 1 + A * L + sum(w + 1 for w, _ in widths)
    if v.ndim != 1 or v.shape[0] != D or not torch.equal(v, v.round()):
        return None
    v = v.to(torch.int64).tolist()
    x = [[v[1 + a * L + l] for a in range(A)] for l in range(L)]
    rows, o = [], 1 + A * L
    for w, sh in widths:
        rows.append(v[o:o + w])
        if v[o + w] != expected_code(w, sh):
            return None
        o += w + 1
    return v[0], x, rows


def decode_leaf(y, A, L, widths, mode, pos):
    """per-example output tensor -> (t, k, dna, rows); BAD when it is not a well-formed encoding"""
    if mode == 'dls':
        if tuple(y.shape) != (1, A, L) or not torch.equal(y, y.round()):
            return BAD
        m = float(y.max())
        if m <= 0 or m % 2:
            return BAD
        c = int(m) // 2
        x = y[0] / (2 * c)
        if not torch.equal(x, x.round()):
            return BAD
        rows, r = [], c - 1
        for _ in widths:
            rows.append([r % 8])
            r //= 8
        if r:
            return BAD
        return 0, 0, ohe_list(x), rows
    if mode == 'ism1':
        # y: (A, L, D), entry (a, l) = encoding of the example with column l set to letter a
        if y.ndim != 3 or tuple(y.shape[:2]) != (A, L) or L < 2:
            return BAD
        ent = [[decode_row(y[a, l], A, L, widths) for l in range(L)] for a in range(A)]
        if any(e is None or e[0] != 0 for r in ent for e in r):
            return BAD
        base = [ent[0][(l + 1) % L][1][l] for l in range(L)]
        rows = ent[0][0][2]
        for a in range(A):
            for l in range(L):
                exp = [list(c) for c in base]
                exp[l] = column(A, a)
                if ent[a][l][1] != exp or ent[a][l][2] != rows:
                    return BAD
        return 0, 1, base, rows
    if y.ndim == 2:
        if y.shape[0] != 2 or not torch.equal(y[1], y[0] + 1):
            return BAD
        y = y[0]
    d = decode_row(y, A, L, widths)
    if d is None:
        return BAD
    m, x, rows = d
    if mode == 'k':
        t, k = 0, m
    elif mode == 't':
        t, k = m, 0
    elif mode == 'pos':          # t = position of the result in func's return value
        t, k = pos, m
    else:
        t, k = divmod(m, 100)
    if not (0 <= t < 99 and 0 <= k < 99):
        return BAD
    return t, k, x, rows


def to_nd(y, rank, dec):
    """tensor whose first `rank` axes are index axes -> nested lists with decoded leaves"""
    if not isinstance(y, torch.Tensor) or y.ndim < rank:
        return ('leaf', BAD)
    if rank == 0:
        return ('leaf', dec(y))
    return ('node', [to_nd(y[i], rank - 1, dec) for i in range(y.shape[0])])


def pack_tag(y):
    if isinstance(y, torch.Tensor):
        return 0
    if isinstance(y, (list, tuple)) and all(isinstance(t, torch.Tensor) for t in y):
        return 1
    return 2


def as_list(y):
    return [y] if isinstance(y, torch.Tensor) else list(y)


# ----------------------------------------------------------------------------------------
# running the implementation

def shuffle_fn(name):
    from tangermeme import ersatz
    if name == 'custom':
        return custom_shuffle
    return ersatz.shuffle if name == 'shuffle' else ersatz.dinucleotide_shuffle


def seed_obj(inp):
    f = inp.get('seedf', 'int')
    if f == 'np':
        return numpy.int64(inp['seed'])
    if f == 'rs':
        return numpy.random.RandomState(inp['seed'])
    return inp['seed']


def replay_shuffles(inp):
    """what shuffle_fn returns for each call ablate makes: a list (one per annotation for ablann,
    else one) of [B][n][L][A] or None when it raises.  A RandomState object is shared by the
    successive calls of ablate_annotations, exactly as in the implementation."""
    A = inp['A']
    X = to_tensor(A, inp['X'], inp.get('xdt', 'f32'))
    n = 20 if inp.get('ndef') else inp['n']
    rs = seed_obj(inp)
    fn = shuffle_fn(inp['shuf'])
    spans = ([(slice(a[0], a[0] + 1), a[1], a[2]) for a in inp['anns']] if inp['kind'] == 'ablann'
             else [(slice(None), inp['start'], inp['end'])])
    out = []
    for sl, s, e in spans:
        try:
            out.append(ohe_list(fn(X[sl], start=s, end=e, n=n, random_state=rs)))
        except Exception:
            out.append(None)
    return out


def motif_arg(m, alphabet):
    if m['form'] == 'str':
        return ''.join(alphabet[k] for k in m['seqs'][0])
    return to_tensor(m['A'], m['seqs'], m.get('dt', 'f32'))


def leaf_mode(inp, j=None):
    f = inp.get('func', 'predict')
    if f == 'dls':
        return 'dls'
    if f == 'ism':
        return 'ism1' if j == 1 else 'k'
    if inp['kind'] in ('prod', 'pair'):
        if f == 'nested':
            return 'tk'
        if f == 'marginalize':
            return 'pos'
        return 'k' if inp.get('nk') is None and f == 'predict' else 't'
    return 'k'


def num(v, form):
    if v is None:
        return None
    return numpy.int64(v) if form == 'np' else int(v)


class Ctx:
    """objects shared by the calls of one sequence: equal content -> the same object"""

    def __init__(self):
        self.objs = {}
        self.snap = []

    def get(self, role, content, build, track=True):
        key = role + json.dumps(content, sort_keys=True, default=str)
        if key not in self.objs:
            o = build()
            self.objs[key] = o
            if track:
                self.snap.append((o, copy.deepcopy(o)))
        return self.objs[key]

    def unchanged(self):
        def same(a, b):
            if isinstance(a, torch.Tensor):
                return isinstance(b, torch.Tensor) and a.dtype == b.dtype and a.shape == b.shape \
                    and torch.equal(a, b)
            if isinstance(a, numpy.ndarray):
                return a.dtype == b.dtype and a.shape == b.shape and numpy.array_equal(a, b)
            if isinstance(a, (list, tuple)):
                return type(a) == type(b) and len(a) == len(b) and all(same(x, y) for x, y in zip(a, b))
            return a == b
        return all(same(a, b) for a, b in self.snap)


def ann_obj(anns, form):
    if form == 'list':
        return [list(a) for a in anns]
    if form == 'numpy':
        return numpy.array(anns, dtype=numpy.int64).reshape(-1, 3)
    return torch.tensor(anns, dtype=torch.int32 if form == 'tensor32' else torch.int64).reshape(-1, 3)


def grid_obj(grid, form):
    if form == 'numpy':
        return numpy.array(grid, dtype=numpy.int64).reshape(len(grid), -1)
    if form in ('t32', 't64'):
        return torch.tensor(grid, dtype=torch.int32 if form == 't32' else torch.int64).reshape(len(grid), -1)
    return [list(r) for r in grid]


def call_impl(inp, ctx):
    """one call of the wrapper named by inp['kind']; returns (raw result, decoding info)"""
    from tangermeme.marginalize import marginalize, marginalize_annotations
    from tangermeme.ablate import ablate, ablate_annotations
    from tangermeme.space import space
    from tangermeme.product import apply_product, apply_pairwise
    kind = inp['kind']
    A = inp['A']
    alphabet = list(LETTERS[:A])
    xdt = inp.get('xdt', 'f32')
    X = ctx.get('X', [A, inp['X'], xdt], lambda: to_tensor(A, inp['X'], xdt))
    model = ctx.get('model', [inp.get('func') == 'dls', inp.get('nk')], lambda: make_model(inp), track=False)
    func, fkw0 = ctx.get('func', func_key(inp), lambda: make_func(inp), track=False)
    sf = inp.get('startf', 'int')
    if kind in ('prod', 'pair'):
        sh = inp.get('pargsh', 'flat')
        adt = inp.get('argdt', 'f32')
        pargs = ctx.get('pargs', [inp['pargs'], sh, adt, inp.get('argc')],
                        lambda: [arg_tensor(a, adt, sh) if a else torch.tensor(a, dtype=DT[adt]) for a in inp['pargs']])
        if inp.get('argc') == 'tuple':
            pargs = tuple(pargs)
        f = apply_product if kind == 'prod' else apply_pairwise
        kw = {}
        if not inp.get('bsdef'):
            kw['batch_size'] = inp['bs']
        fk = dict(fkw0)
        if inp.get('func') == 'marginalize':
            fk['motif'] = ctx.get('motif', inp['M'], lambda: motif_arg(inp['M'], alphabet))
            fk['start'] = num(inp['start'], sf)
            fk['alphabet'] = alphabet
        if inp.get('route') == 'afk':
            d = ctx.get('afk', [kind, sorted(fk)], lambda: {}, track=False)
            d.update(fk)
            kw['additional_func_kwargs'] = d
        else:
            kw.update(fk)
        if inp.get('verbose'):
            kw['verbose'] = True
        return f(func, model, X, args=pargs, device='cpu', **kw)
    adt, ash = inp.get('argdt', 'f32'), inp.get('argsh', 'flat')
    args = None
    if inp.get('args'):
        args = ctx.get('args', [inp['args'], adt, ash], lambda: [arg_tensor(a, adt, ash) for a in inp['args']])
        if inp.get('argc', 'tuple') == 'tuple':
            args = tuple(args)
    kw = {'device': 'cpu'}
    if not inp.get('bsdef'):
        kw['batch_size'] = inp.get('bs', 32)
    fk = dict(fkw0)
    if inp.get('route') == 'kw':
        kw.update(fk)
    elif fk or inp.get('route') == 'afk':
        d = ctx.get('afk', [kind, sorted(fk)], lambda: {}, track=False)
        d.update(fk)
        kw['additional_func_kwargs'] = d
    if kind == 'marg':
        if args is not None:
            kw['args'] = args
        motif = ctx.get('motif', inp['M'], lambda: motif_arg(inp['M'], alphabet))
        return marginalize(model, X, motif, start=num(inp['start'], sf), alphabet=alphabet, func=func, **kw)
    if kind == 'abl':
        if args is not None:
            kw['args'] = args
        if not inp.get('ndef'):
            kw['n'] = inp['n']
        return ablate(model, X, num(inp['start'], sf), num(inp['end'], sf), shuffle_fn=shuffle_fn(inp['shuf']),
                      random_state=seed_obj(inp), func=func, **kw)
    if kind == 'space':
        if args is not None:
            kw['args'] = args
        if inp.get('verbose'):
            kw['verbose'] = True
        gf = inp.get('gridf', 'list')
        grid = ctx.get('grid', [inp['grid'], gf], lambda: grid_obj(inp['grid'], gf))
        motifs = ctx.get('motifs', inp['Ms'], lambda: [motif_arg(m, alphabet) for m in inp['Ms']])
        return space(model, X, motifs, grid, start=num(inp['start'], sf), alphabet=alphabet, func=func, **kw)
    af = inp.get('annf', 'tensor64')
    ann = ctx.get('ann', [inp['anns'], af], lambda: ann_obj(inp['anns'], af))
    if kind == 'margann':
        if args is not None:
            kw['args'] = args
        X0 = ctx.get('X0', [A, inp['X0'], xdt], lambda: to_tensor(A, inp['X0'], xdt))
        return marginalize_annotations(model, X, X0, ann, start=num(inp['start'], sf), func=func, **kw)
    if kind == 'ablann':
        if args is not None:
            kw['args'] = args
        if not inp.get('ndef'):
            kw['n'] = inp['n']
        return ablate_annotations(model, X, ann, shuffle_fn=shuffle_fn(inp['shuf']),
                                  random_state=seed_obj(inp), func=func, **kw)
    raise KeyError(kind)


RANKS = {'marg': (1, 1), 'abl': (1, 2), 'space': (2, 2), 'margann': (2, 2), 'ablann': (2, 3)}


def decode_result(inp, y):
    kind = inp['kind']
    A = inp['A']
    if kind in ('prod', 'pair'):
        L = len(inp['X'][0])
        widths = [(len(a[0]) if a else 0, inp.get('pargsh', 'flat')) for a in inp['pargs']]
        rank = 1 + len(inp['pargs']) if kind == 'prod' else 2
        tag = pack_tag(y)
        if tag == 0:
            ys = [[y]]
        elif tag == 1:
            ys = [[t] for t in y]
        else:
            ys = [list(t) for t in y]
        Y = [[to_nd(t, rank, (lambda v, a=a: decode_leaf(v, A, L, widths, leaf_mode(inp), a))) for t in r]
             for a, r in enumerate(ys)]
        return Y, tag
    L = len(inp['X0'][0]) if kind == 'margann' else len(inp['X'][0])
    widths = [(len(a[0]), inp.get('argsh', 'flat')) for a in inp.get('args', [])]
    yb, ya = y
    out = []
    for yy, rank in zip((yb, ya), RANKS[kind]):
        out.append([to_nd(t, rank, (lambda v, j=j: decode_leaf(v, A, L, widths, leaf_mode(inp, j), j)))
                    for j, t in enumerate(as_list(yy))])
    return out, 10 * min(pack_tag(yb), 1) + min(pack_tag(ya), 1)


def run_impl(inp):
    ctx = Ctx()
    with contextlib.redirect_stderr(io.StringIO()):     # tqdm bars of verbose=True
        for pre in inp.get('pre', []):
            try:
                call_impl(pre, ctx)
            except Exception:
                pass
        try:
            y = call_impl(inp, ctx)
            Y, tag = decode_result(inp, y)
            out = {'ok': True, 'Y': Y, 'tag': tag}
        except Exception as e:
            out = {'ok': False, 'Y': None, 'tag': 0, 'err': '%s: %s' % (type(e).__name__, str(e)[:200])}
    out['unchanged'] = ctx.unchanged()
    return out


# ----------------------------------------------------------------------------------------
# Coq literals

def dna_lit(x):
    return C.lst([C.zlist(c) for c in x])


def tensor_lit(A, seqs):
    L = len(seqs[0]) if seqs else 0
    return '(T %s %s %s)' % (C.nat(A), C.nat(L),
                             C.batch_lit([[column(A, k) for k in s] for s in seqs]))


def batch_of(A, seqs):
    return C.batch_lit([[column(A, k) for k in s] for s in seqs])


def args_lit(args):
    return C.lst([C.zmat(a) for a in (args or [])])


def nk_lit(nk):
    return 'None' if nk is None else '(Some %s)' % C.nat(nk)


def nd_lit(t):
    tag, v = t
    if tag == 'leaf':
        tt, k, x, rows = v
        return '(Leaf (%s, %s, (%s, %s)))' % (C.nat(tt), C.nat(k), dna_lit(x), C.zmat(rows))
    return '(Node %s)' % C.lst([nd_lit(c) for c in v])


def shuf_lit(S):
    if S is None:
        return 'None'
    return '(Some %s)' % C.lst([C.lst([dna_lit(x) for x in r]) for r in S])


def sh_lit(inp):
    f = inp.get('func', 'predict')
    nk = inp.get('nk')
    if f == 'nested':
        return '(OLL %s %s)' % (C.nat(inp['fk']), C.nat(nk))
    if f == 'marginalize':
        return '(OL 2%nat)' if nk is None else '(OLL 2%%nat %s)' % C.nat(nk)
    if f == 'tuplefn':
        return '(OL %s)' % C.nat(inp['fk'])
    return 'OT' if nk is None else '(OL %s)' % C.nat(nk)


def edit_lit(inp):
    """apply_* with func = marginalize: result t = 1 is the model on x with the motif at p"""
    if inp['kind'] not in ('prod', 'pair') or inp.get('func') != 'marginalize':
        return 'None'
    mo = inp['M']['seqs'][0]
    L = len(inp['X'][0])
    p = inp['start'] if inp['start'] is not None else L // 2 - len(mo) // 2
    return '(Some (%s, %s))' % (C.nat(p), dna_lit([column(inp['M']['A'], k) for k in mo]))


def coq_case(inp, out):
    kind = inp['kind']
    A = inp['A']
    nk = nk_lit(eff_nk(inp))
    args = args_lit(inp.get('args'))
    if kind == 'marg':
        m = inp['M']
        call = '(CMarg %s %s %s %s %s)' % (nk, tensor_lit(A, inp['X']), tensor_lit(m['A'], m['seqs']),
                                           C.opt(inp['start']), args)
    elif kind == 'abl':
        S = replay_shuffles(inp)[0]
        n = 20 if inp.get('ndef') else inp['n']
        call = '(CAbl %s %s %s %s %s)' % (nk, batch_of(A, inp['X']), C.nat(n), shuf_lit(S), args)
    elif kind == 'space':
        call = '(CSpace %s %s %s %s %s %s)' % (
            nk, tensor_lit(A, inp['X']), C.lst([tensor_lit(m['A'], m['seqs']) for m in inp['Ms']]),
            C.zmat(inp['grid']), C.opt(inp['start']), args)
    elif kind == 'margann':
        anns = C.lst(['(%s, %s, %s)' % tuple(C.nat(v) for v in a) for a in inp['anns']])
        call = '(CMargAnn %s %s %s %s %s %s)' % (nk, tensor_lit(A, inp['X']), tensor_lit(A, inp['X0']),
                                                 anns, C.opt(inp['start']), args)
    elif kind == 'ablann':
        Ss = [shuf_lit(S) for S in replay_shuffles(inp)]
        n = 20 if inp.get('ndef') else inp['n']
        call = '(CAblAnn %s %s %s %s %s %s)' % (nk, batch_of(A, inp['X']),
                                                C.natlist([a[0] for a in inp['anns']]), C.nat(n),
                                                C.lst(Ss), args)
    else:
        call = '(%s %s %s %s %s)' % ('CProd' if kind == 'prod' else 'CPair', sh_lit(inp),
                                     batch_of(A, inp['X']), args_lit(inp['pargs']),
                                     C.nat(32 if inp.get('bsdef') else inp['bs']))
    if out['ok']:
        o = '(Ok %s)' % C.lst([C.lst([nd_lit(t) for t in r]) for r in out['Y']])
    else:
        o = 'Err'
    return '(%s, %s, %s, %s, %s)' % (call, o, edit_lit(inp), C.nat(out.get('tag', 0)),
                                     C.boolean(out.get('unchanged', True)))


# ----------------------------------------------------------------------------------------
# evidence helpers

def nontrivial(inp, out):
    if not out['ok']:
        return False
    kind = inp['kind']
    B = len(inp['X'])
    n = 20 if inp.get('ndef') else inp.get('n', 0)
    if kind == 'marg':
        return B >= 2
    if kind == 'abl':
        return B >= 2 and n >= 2
    if kind == 'space':
        return B >= 2 and len(inp['grid']) >= 2
    if kind == 'margann':
        return len(inp['anns']) >= 2 and len(inp['X0']) >= 2
    if kind == 'ablann':
        return len(inp['anns']) >= 2 and n >= 2
    if kind == 'prod':
        return B >= 2 and all(len(a) >= 2 for a in inp['pargs'])
    return B >= 2 and len(inp['pargs'][0]) >= 2


def hist_key(inp, out):
    return '%s/%s/%s/%s/%s' % (inp['kind'], inp.get('stream', 'random'), inp.get('func', 'predict'),
                               'T' if eff_nk(inp) is None else eff_nk(inp), 'ok' if out['ok'] else 'raise')


def tags(inp, out):
    return set()


# ----------------------------------------------------------------------------------------
# generators

def rand_seq(rng, A, L):
    return [rng.randrange(A) for _ in range(L)]


def diverse_seq(rng, A, L):
    while True:
        s = rand_seq(rng, A, L)
        if len(set(s)) >= min(A, 3):
            return s


def rand_args(rng, B, small=False, n=None):
    """0-2 extra inputs, every row distinct from every other example's"""
    n = rng.choice([0, 1, 1, 2, 2]) if n is None else n
    out = []
    for j in range(n):
        if small:
            perm = rng.sample(range(8), B)
            out.append([[perm[i]] for i in range(B)])
        else:
            w = rng.choice([1, 2])
            base = rng.randrange(50)
            out.append([[base + 10 * j + 3 * i + c + 100 * c * (i + 1) for c in range(w)] for i in range(B)])
    return out


def rand_model(rng, inp, allow=('predict', 'predict', 'predict', 'tuplefn', 'dls', 'ism')):
    f = rng.choice(allow)
    inp['func'] = f
    if f == 'predict':
        inp['nk'] = rng.choice([None, 1, 2, 2, 3, 3])
    elif f == 'tuplefn':
        inp['nk'] = None
        inp['fk'] = rng.randint(1, 3)
    else:
        inp['nk'] = None
    return f


def rand_motif(rng, A, m, B):
    Bm = rng.choice([1, 1, B])
    form = 'str' if (Bm == 1 and rng.random() < 0.4) else 'tensor'
    return {'form': form, 'A': A, 'seqs': [rand_seq(rng, A, m) for _ in range(Bm)],
            'dt': rng.choice(['f32', 'f32', 'i8'])}


def forms(rng, inp):
    """input forms / types / routes the API accepts, drawn independently of the values"""
    f = inp.get('func', 'predict')
    kind = inp['kind']
    inp['xdt'] = rng.choice(['f32', 'f32', 'f64']) if f == 'dls' else rng.choice(['f32', 'f32', 'f64', 'i8', 'i64'])
    inp['startf'] = rng.choice(['int', 'int', 'np'])
    inp['argc'] = rng.choice(['tuple', 'list'])
    inp['argdt'] = rng.choice(['f32', 'f32', 'f64', 'i64']) if f != 'dls' else rng.choice(['f32', 'f64'])
    inp['route'] = rng.choice(['afk', 'kw', 'none'])
    if rng.random() < 0.15:
        inp['bsdef'] = True
    if kind in ('prod', 'pair'):
        inp['pargsh'] = rng.choice(['flat', 'flat', 'col', 'row'])
        inp['verbose'] = rng.random() < 0.1
        return inp
    inp['argsh'] = rng.choice(['flat', 'flat', 'col', 'row'])
    if kind in ('abl', 'ablann'):
        inp['seedf'] = rng.choice(['int', 'int', 'np']) if (f == 'dls' or inp.get('shuf') == 'dinuc') \
            else rng.choice(['int', 'int', 'np', 'rs'])
    if kind in ('margann', 'ablann'):
        inp['annf'] = rng.choice(['tensor64', 'tensor64', 'tensor32', 'numpy', 'list'])
    if kind == 'space':
        inp['gridf'] = rng.choice(['list', 'list', 'numpy', 't32', 't64'])
        inp['verbose'] = rng.random() < 0.1
    return inp


def gen_one(rng, kind):
    A = 4 if rng.random() < 0.8 else rng.choice([2, 3, 5])
    B = rng.choice([1, 2, 2, 3, 3, 4])
    L = rng.randint(4, 14)
    inp = {'kind': kind, 'A': A, 'bs': rng.choice([1, 2, 3, 5, 32])}
    if kind in ('prod', 'pair'):
        f = rng.choice(['predict', 'predict', 'tuplefn', 'nested', 'marginalize', 'dls'])
        inp['func'] = f
        if f == 'predict':
            inp['nk'] = rng.choice([None, 1, 2, 3])
        elif f == 'tuplefn':
            inp['nk'], inp['fk'] = None, rng.randint(1, 3)
        elif f == 'nested':
            inp['nk'], inp['fk'] = rng.randint(1, 3), rng.randint(1, 2)
        elif f == 'marginalize':
            inp['nk'] = rng.choice([None, None, 1, 2, 3])
        else:
            inp['nk'] = None
        L = rng.randint(2, 6)
        inp['X'] = [rand_seq(rng, A, L) for _ in range(B)]
        if kind == 'prod':
            m = rng.choice([0, 1, 1, 2, 2, 3]) if f != 'dls' else rng.choice([0, 1, 2])
            sizes = [rng.randint(1, 4) for _ in range(m)]
        else:
            m = rng.choice([1, 1, 2, 3]) if f != 'dls' else rng.choice([1, 2])
            sizes = [rng.randint(1, 4)] * m
        pargs = []
        for j, n in enumerate(sizes):
            if f == 'dls':
                perm = rng.sample(range(8), n)
                pargs.append([[perm[i]] for i in range(n)])
                continue
            w = rng.choice([1, 2])
            base = rng.randrange(40)
            pargs.append([[base + 7 * j + 3 * i + 50 * c for c in range(w)] for i in range(n)])
        inp['pargs'] = pargs
        total = B * (int(numpy.prod(sizes, dtype=int)) if kind == 'prod' else (sizes[0] if sizes else 1))
        cands = [b for b in (1, 2, 3, 4, 5, 7, 32) if total % b] or [1, 2, 3]
        inp['bs'] = int(rng.choice(cands + cands + [1, 2, 3, 4, 5, 7, 32, total, total + 1, max(1, total - 1)]))
        if f == 'marginalize':
            mlen = rng.randint(1, min(3, L))
            inp['M'] = {'form': rng.choice(['str', 'tensor']), 'A': A, 'seqs': [rand_seq(rng, A, mlen)],
                        'dt': rng.choice(['f32', 'i8'])}
            inp['start'] = None if rng.random() < 0.3 else rng.randint(0, L - mlen)
        forms(rng, inp)
        if f == 'dls':
            inp['pargsh'] = 'flat'
        return inp
    if kind == 'margann':
        f = rand_model(rng, inp, ('predict', 'predict', 'predict', 'tuplefn', 'dls'))
        BX = rng.randint(1, 3)
        LX = rng.randint(4, 12)
        inp['X'] = [rand_seq(rng, A, LX) for _ in range(BX)]
        inp['X0'] = [rand_seq(rng, A, L) for _ in range(B)]
        na = rng.randint(1, 6)
        anns = []
        for _ in range(na):
            s = rng.randrange(LX)
            e = rng.randint(s + 1, min(LX, s + L))
            anns.append([rng.randrange(BX), s, e])
        inp['anns'] = anns
        mx = max(e - s for _, s, e in anns)
        inp['start'] = None if rng.random() < 0.3 else rng.randint(0, L - mx)
        inp['args'] = rand_args(rng, B, small=(f == 'dls'))
        return forms(rng, inp)
    f = rand_model(rng, inp)
    if f == 'ism':
        L = rng.randint(3, 6)
    if kind == 'ablann':
        inp['X'] = [rand_seq(rng, A, L) for _ in range(B)]
        na = rng.randint(1, 6)
        anns = []
        for _ in range(na):
            s = rng.randrange(L)
            e = rng.randint(s + 1, L)
            anns.append([rng.randrange(B), s, e])
        inp['anns'] = anns
        inp['n'] = rng.randint(1, 5)
        inp['shuf'] = rng.choice(['shuffle', 'shuffle', 'custom'])
        inp['seed'] = rng.randint(0, 10 ** 6)
        inp['args'] = rand_args(rng, 1, small=(f == 'dls'))
        return forms(rng, inp)
    inp['X'] = [rand_seq(rng, A, L) for _ in range(B)]
    inp['args'] = rand_args(rng, B, small=(f == 'dls'))
    if kind == 'marg':
        m = rng.randint(1, min(4, L))
        inp['M'] = rand_motif(rng, A, m, B)
        inp['start'] = None if rng.random() < 0.25 else rng.choice([0, L - m, rng.randint(0, L - m)])
    elif kind == 'abl':
        dinuc = A == 4 and rng.random() < 0.25 and f != 'ism'
        if dinuc:
            L = rng.randint(12, 16)
            inp['X'] = [diverse_seq(rng, A, L) for _ in range(B)]
            inp['start'], inp['end'] = rng.randint(0, 2), L - rng.randint(0, 2)
        else:
            s = rng.randrange(L)
            inp['start'], inp['end'] = s, rng.randint(s + 1, L)
            r = rng.random()
            if r < 0.15:
                inp['end'] = L
            elif r < 0.3 and s < L - 2:
                inp['end'] = rng.choice([-1, -2])
            if rng.random() < 0.15:
                inp['start'] = 0
        inp['shuf'] = 'dinuc' if dinuc else rng.choice(['shuffle', 'shuffle', 'custom'])
        inp['n'] = rng.randint(1, 5)
        if rng.random() < 0.04 and B <= 2 and f in ('predict', 'tuplefn'):
            inp['ndef'] = True
        inp['seed'] = rng.randint(0, 10 ** 6)
    elif kind == 'space':
        nm = rng.choice([1, 2, 2, 3])
        Ms = [rand_motif(rng, A, rng.randint(1, 2), B) for _ in range(nm)]
        tot = sum(len(m['seqs'][0]) for m in Ms)
        room = max(0, L - tot)
        rows = rng.randint(1, 4)
        grid = []
        for _ in range(rows):
            r, left = [], room
            for _j in range(nm - 1):
                g = rng.randint(0, min(left, 3))
                r.append(g)
                left -= g
            grid.append(r)
        inp['Ms'], inp['grid'] = Ms, grid
        mx = max([sum(r) for r in grid]) if nm > 1 else 0
        inp['start'] = None if rng.random() < 0.35 else rng.randint(0, max(0, L - tot - mx))
    return forms(rng, inp)


def boundary(rng):
    """values at the edges of every integer parameter, and the combinations the code special-cases"""
    A = 4
    X = [[0, 1, 2, 3, 1, 0], [3, 2, 1, 0, 2, 2], [1, 3, 0, 2, 3, 1]]
    L = 6
    args3 = [[[5, 6], [7, 8], [9, 1]]]
    out = []

    def add(d):
        d.setdefault('A', A)
        d.setdefault('bs', 32)
        d['stream'] = 'boundary'
        out.append(d)
    for nk, func, fk in ((None, 'predict', None), (2, 'predict', None), (3, 'predict', None), (None, 'tuplefn', 2)):
        base = {'func': func, 'nk': nk}
        if fk:
            base['fk'] = fk
        # annotations: first column, last column, full length, one column, exact duplicates,
        # equal coordinates on different examples
        spans = [[0, 0, 1], [1, L - 1, L], [2, 0, L], [1, 2, 3], [1, 2, 3], [0, 2, 3], [2, 2, 3],
                 [0, 1, L], [2, 0, L - 1]]
        for annf in ('tensor64', 'list'):
            k = rng.randint(2, len(spans))
            sub = rng.sample(spans, k)
            add(dict(base, kind='ablann', X=X, anns=sub, n=rng.randint(1, 3), shuf='shuffle',
                     seed=rng.randint(0, 99), args=rng.choice([[], [[[4, 2]]]]), annf=annf))
            add(dict(base, kind='ablann', X=X, anns=[[0, 3, L], [1, 3, L], [2, 3, L]], n=2, shuf='shuffle',
                     seed=rng.randint(0, 99), args=[], annf=annf, seedf=rng.choice(['int', 'np', 'rs'])))
            X0 = [[2, 2, 0, 0, 1, 3, 3], [0, 3, 1, 2, 2, 0, 1]]
            sub = rng.sample(spans, k)
            mx = max(e - s for _, s, e in sub)
            add(dict(base, kind='margann', X=X, X0=X0, anns=sub, start=rng.choice([None, 0, 7 - mx]),
                     args=rng.choice([[], [[[4], [9]]]]), annf=annf))
            add(dict(base, kind='margann', X=X, X0=X0, anns=[[0, 2, 4], [1, 2, 4], [2, 2, 4], [1, 2, 4]],
                     start=rng.choice([None, 0, 5]), args=[], annf=annf))
        # marginalize: start 0 / L-m / default for odd and even lengths
        for Lx in (6, 7):
            Xs = [x[:Lx] if Lx <= 6 else x + [rng.randrange(4)] for x in X]
            for m in (1, 2, 3, Lx):
                mo = {'form': rng.choice(['str', 'tensor']), 'A': A, 'seqs': [rand_seq(rng, A, m)]}
                add(dict(base, kind='marg', X=Xs, M=mo, start=rng.choice([None, None, 0, Lx - m]), args=args3,
                         bs=rng.choice([1, 3, 32])))
        # ablate: whole sequence, first / last column, negative end, n = 1, batch_size = B*n
        for s, e in ((0, L), (0, 1), (L - 1, L), (0, -1), (1, -2), (2, L)):
            n = rng.choice([1, 2, 4])
            add(dict(base, kind='abl', X=X, start=s, end=e, n=n, shuf=rng.choice(['shuffle', 'custom']),
                     seed=rng.randint(0, 99), args=args3, bs=rng.choice([3 * n, 3, 1, 3 * n - 1]),
                     seedf=rng.choice(['int', 'np', 'rs'])))
        # space: default start with rows of different totals (each row is centred on its own)
        Xl = [x + x for x in X]
        Ms = [{'form': 'str', 'A': A, 'seqs': [[0, 1]]}, {'form': 'tensor', 'A': A, 'seqs': [[2]]}]
        for grid in ([[0], [2]], [[1], [4], [0]], [[3], [0], [5], [2]], [[0]], [[7]]):
            add(dict(base, kind='space', X=Xl, Ms=Ms, grid=grid, start=None, args=args3,
                     gridf=rng.choice(['list', 'numpy', 't32', 't64']), bs=rng.choice([1, 3, 32])))
        add(dict(base, kind='space', X=Xl, Ms=Ms + [{'form': 'str', 'A': A, 'seqs': [[3, 3]]}],
                 grid=[[0, 0], [2, 1], [0, 4]], start=None, args=[]))
        add(dict(base, kind='space', X=Xl, Ms=Ms[:1], grid=[[], []], start=rng.choice([None, 0, 10]), args=args3))
    # products: batch_size around the product size, sizes 1, arity 0..3
    for f, nk, fk in (('predict', None, None), ('predict', 2, None), ('nested', 2, 2), ('marginalize', None, None),
                      ('marginalize', 2, None), ('tuplefn', None, 3)):
        base = {'func': f, 'nk': nk, 'X': [x[:4] for x in X]}
        if fk:
            base['fk'] = fk
        if f == 'marginalize':
            base['M'] = {'form': 'str', 'A': A, 'seqs': [[3, 3]]}
            base['start'] = rng.choice([None, 0, 2])
        for sizes in ([], [1], [4], [2, 3], [3, 1, 2], [4, 4]):
            ws = [rng.choice([1, 2]) for _ in sizes]
            pargs = [[[10 * j + i, 50 + i][:ws[j]] for i in range(n)] for j, n in enumerate(sizes)]
            total = 3 * int(numpy.prod(sizes, dtype=int))
            for bs in {1, total, total + 1, max(1, total - 1), 5}:
                add(dict(base, kind='prod', pargs=pargs, bs=bs))
            add(dict(base, kind='prod', pargs=pargs, bs=32, bsdef=True))
        for n in (1, 3, 4):
            pargs = [[[i] for i in range(n)], [[20 + i, 30 + i] for i in range(n)]]
            for bs in {1, 3 * n, 3 * n + 1, 5}:
                add(dict(base, kind='pair', pargs=pargs, bs=bs, pargsh=rng.choice(['flat', 'col', 'row'])))
    return out


def vary(rng, inp):
    """a copy of inp with ONE thing changed (or None)"""
    kind = inp['kind']
    A = inp['A']
    v = copy.deepcopy(inp)
    v.pop('pre', None)
    opts = ['X', 'bs']
    if inp.get('args'):
        opts.append('args')
    if kind in ('abl', 'ablann'):
        opts += ['seed', 'n']
    if kind in ('marg', 'space', 'margann') or inp.get('func') == 'marginalize':
        opts.append('start')
    if kind == 'marg' or inp.get('func') == 'marginalize':
        opts.append('motif')
    if kind == 'space':
        opts += ['grid', 'motifs']
    if kind in ('margann', 'ablann'):
        opts += ['idx', 'coords']
    if kind in ('prod', 'pair'):
        opts += ['pargs', 'psize']
    if inp.get('func', 'predict') == 'predict' and kind not in ('prod', 'pair'):
        opts.append('nk')
    what = rng.choice(opts)
    L = len(inp['X0'][0]) if kind == 'margann' else len(inp['X'][0])
    if what == 'X':
        key = 'X0' if kind == 'margann' and rng.random() < 0.5 else 'X'
        Lk = len(inp[key][0])
        mk = diverse_seq if inp.get('shuf') == 'dinuc' else rand_seq
        v[key] = [mk(rng, A, Lk) for _ in inp[key]]
    elif what == 'bs':
        v['bs'] = rng.choice([b for b in (1, 2, 3, 4, 5, 7, 32) if b != inp.get('bs')])
        v.pop('bsdef', None)
    elif what == 'args':
        v['args'] = [[[x + 1 for x in r] for r in a] for a in inp['args']]
        if inp.get('func') == 'dls':
            v['args'] = [[[(x + 1) % 8 for x in r] for r in a] for a in inp['args']]
    elif what == 'seed':
        v['seed'] = inp['seed'] + rng.randint(1, 5)
    elif what == 'n':
        v['n'] = inp['n'] % 5 + 1
        v.pop('ndef', None)
    elif what == 'start':
        cur = inp['start']
        if kind == 'marg' or inp.get('func') == 'marginalize':
            room = L - len(inp['M']['seqs'][0])
        elif kind == 'margann':
            room = L - max(e - s for _, s, e in inp['anns'])
        else:
            tot = sum(len(m['seqs'][0]) for m in inp['Ms'])
            room = L - tot - max([sum(r) for r in inp['grid']] + [0])
        c = [s for s in [None] + list(range(0, max(0, room) + 1)) if s != cur]
        if not c:
            return None
        v['start'] = rng.choice(c)
    elif what == 'motif':
        m = inp['M']
        v['M'] = dict(m, seqs=[[(k + 1) % m['A'] for k in s] for s in m['seqs']])
    elif what == 'motifs':
        v['Ms'] = [dict(m, seqs=[[(k + 1) % m['A'] for k in s] for s in m['seqs']]) for m in inp['Ms']]
    elif what == 'grid':
        if not inp['grid'] or not inp['grid'][0]:
            return None
        v['grid'] = [list(r) for r in reversed(inp['grid'])] if len(inp['grid']) > 1 and rng.random() < 0.5 \
            else [[max(0, g - 1) for g in r] for r in inp['grid']]
        if v['grid'] == inp['grid']:
            return None
    elif what == 'idx':
        nB = len(inp['X'])
        if nB < 2:
            return None
        v['anns'] = [[(a[0] + 1) % nB, a[1], a[2]] for a in inp['anns']]
    elif what == 'coords':
        LX = len(inp['X'][0])
        new = []
        for idx, s, e in inp['anns']:
            if s > 0:
                new.append([idx, s - 1, e - 1])
            elif e < LX and (kind == 'ablann' or e - s + 1 <= L):
                new.append([idx, s, e + 1] if kind == 'ablann' else [idx, s + 1, e + 1])
            else:
                new.append([idx, s, e])
        if new == inp['anns']:
            return None
        v['anns'] = new
        if kind == 'margann' and v['start'] is not None:
            v['start'] = min(v['start'], L - max(e - s for _, s, e in new))
    elif what == 'pargs':
        if not inp['pargs']:
            return None
        if inp.get('func') == 'dls':
            v['pargs'] = [[[(x + 1) % 8 for x in r] for r in a] for a in inp['pargs']]
        else:
            v['pargs'] = [[[x + 1 for x in r] for r in a] for a in inp['pargs']]
    elif what == 'psize':
        if not inp['pargs'] or len(inp['pargs'][0]) < 2:
            return None
        v['pargs'] = [a[:-1] for a in inp['pargs']] if kind == 'pair' else [inp['pargs'][0][:-1]] + inp['pargs'][1:]
    elif what == 'nk':
        v['nk'] = rng.choice([k for k in (None, 1, 2, 3) if k != inp.get('nk')])
    return v


def sequence(rng, kind):
    """2-3 calls in one process on shared objects, ONE thing changed between consecutive calls"""
    for _ in range(20):
        base = gen_one(rng, kind)
        if base.get('seedf') == 'rs':
            base['seedf'] = 'int'
        v = vary(rng, base)
        if v is None or v == base:
            continue
        r = rng.random()
        if r < 0.45:
            final, pre = base, [v]
        elif r < 0.8:
            final, pre = v, [base]
        else:
            final, pre = base, [base, v]
        final = dict(final, pre=pre, stream='sequence')
        return final
    return gen_one(rng, kind)


def reject_one(rng):
    """calls the code rejects (and the model too): mis-sized extra inputs, spans off the edge"""
    kind = rng.choice(['marg', 'abl', 'space', 'prod0'])
    if kind == 'prod0':
        inp = gen_one(rng, 'prod')
        while inp.get('func') not in ('predict', 'tuplefn', 'nested'):
            inp = gen_one(rng, 'prod')
        inp['bs'] = rng.choice([1, 2])
        inp.pop('bsdef', None)
        inp['pargs'] = inp['pargs'] + [[]]
        inp['stream'] = 'reject'
        return inp
    inp = gen_one(rng, kind)
    while inp.get('func') not in ('predict', 'tuplefn'):
        inp = gen_one(rng, kind)
    B = len(inp['X'])
    L = len(inp['X'][0])
    if rng.random() < 0.5 or kind == 'abl':
        a = rand_args(rng, B + 1, n=1)
        inp['args'] = (inp['args'] + a)[-2:]
    elif kind == 'marg':
        m = len(inp['M']['seqs'][0])
        inp['start'] = rng.choice([L - m + 1, L, -1, L + 2])
    else:
        inp['start'] = L
    inp['stream'] = 'reject'
    return inp


KINDS = ['marg', 'marg', 'abl', 'abl', 'space', 'space', 'margann', 'margann', 'ablann', 'ablann',
         'prod', 'prod', 'prod', 'pair']


def generate(tier, rng):
    quick = tier != 'thorough'
    bd = boundary(rng)
    if quick:
        prods = [b for b in bd if b['kind'] in ('prod', 'pair')]
        bd = [b for b in bd if b['kind'] not in ('prod', 'pair')] + rng.sample(prods, 150)
    for inp in bd:
        yield inp
    n = 620 if quick else 5200
    for i in range(n):
        if i % 25 == 24:
            yield reject_one(rng)
        elif i % 4 == 3:
            yield sequence(rng, KINDS[(i // 4) % len(KINDS)])
        else:
            yield gen_one(rng, KINDS[i % len(KINDS)])


def shrink(inp):
    kind = inp['kind']
    B = len(inp['X'])
    if inp.get('pre'):
        yield {k: v for k, v in inp.items() if k != 'pre'}
        if len(inp['pre']) > 1:
            for i in range(len(inp['pre'])):
                yield dict(inp, pre=inp['pre'][:i] + inp['pre'][i + 1:])
        return
    if kind in ('marg', 'abl', 'space') and B > 1:
        for i in range(B):
            c = dict(inp)
            c['X'] = inp['X'][:i] + inp['X'][i + 1:]
            c['args'] = [a[:i] + a[i + 1:] for a in inp.get('args', [])]
            if kind == 'marg' and len(inp['M']['seqs']) == B:
                c['M'] = dict(inp['M'], seqs=inp['M']['seqs'][:i] + inp['M']['seqs'][i + 1:])
            if kind == 'space':
                c['Ms'] = [dict(m, seqs=(m['seqs'][:i] + m['seqs'][i + 1:]) if len(m['seqs']) == B else m['seqs'])
                           for m in inp['Ms']]
            yield c
    if kind in ('abl', 'ablann') and not inp.get('ndef') and inp['n'] > 1:
        yield dict(inp, n=inp['n'] - 1)
    if kind in ('margann', 'ablann') and len(inp['anns']) > 1:
        for i in range(len(inp['anns'])):
            yield dict(inp, anns=inp['anns'][:i] + inp['anns'][i + 1:])
    if kind == 'margann' and len(inp['X0']) > 1:
        for i in range(len(inp['X0'])):
            yield dict(inp, X0=inp['X0'][:i] + inp['X0'][i + 1:],
                       args=[a[:i] + a[i + 1:] for a in inp.get('args', [])])
    if kind == 'space' and len(inp['grid']) > 1:
        for i in range(len(inp['grid'])):
            yield dict(inp, grid=inp['grid'][:i] + inp['grid'][i + 1:])
    if kind in ('prod', 'pair'):
        if B > 1:
            for i in range(B):
                yield dict(inp, X=inp['X'][:i] + inp['X'][i + 1:])
        if kind == 'prod':
            for j, a in enumerate(inp['pargs']):
                if len(a) > 1:
                    yield dict(inp, pargs=inp['pargs'][:j] + [a[:-1]] + inp['pargs'][j + 1:])
            if len(inp['pargs']) > 1:
                yield dict(inp, pargs=inp['pargs'][:-1])
        elif len(inp['pargs'][0]) > 1:
            yield dict(inp, pargs=[a[:-1] for a in inp['pargs']])
    if inp.get('args'):
        yield dict(inp, args=inp['args'][:-1])
    # back to the plain forms, one at a time
    plain = {'xdt': 'f32', 'startf': 'int', 'argc': 'tuple', 'argdt': 'f32', 'argsh': 'flat', 'pargsh': 'flat',
             'route': 'afk', 'seedf': 'int', 'annf': 'tensor64', 'gridf': 'list', 'verbose': False, 'bsdef': False}
    for k, d in plain.items():
        if k in inp and inp[k] != d:
            yield dict(inp, **{k: d})
