"""C06 - DeepLIFT/SHAP attributions do not depend on batch size, co-batched examples or call
order: correspondence with coq/C06.

One case is a FAMILY of deep_lift_shap calls on the same examples, made IN ORDER in one process on
one model object (or, where marked, on a fresh copy): the first call passes all examples in their
original order in one batch, the others vary batch_size, pass sub-lists / permutations of the
examples (with their rows of args and of the reference tensor), repeat a call, or are "class 1"
calls that override a built-in rule through `additional_nonlinear_ops`; every call is compared
with the first call of its class.  Two kinds of family:

* 'enc': the model is a recording module (logs the rows of X_ and of every arg per forward
  call, and the (rows, n, random_state) of every call of the reference function) around an op
  registered through `additional_nonlinear_ops` whose rule returns the exact-integer multipliers
  60 * (x + 4 * ref + 32 * sum(args)) for each (example, reference) row times the gradient coming
  from a built-in ReLU behind it (1 under the built-in rule, 2 under the class-1 override), so
  every output identifies the pairs and the rule table it was computed with; references are a
  tagged integer tensor or a deterministic tagged function - either seeding row i of a call with
  random_state + i (like dinucleotide_shuffle) or applying one seed to the whole call (like
  ersatz.shuffle).  Outputs, returned references and the per-flush trace (rows, args,
  reference-function calls) are compared in Coq with the executable model.
* 'real': a small real network (conv / linear / ReLU / ELU / tanh / max-pool, optionally an
  extra arg) with the real dinucleotide_shuffle or the real ersatz.shuffle and an integer
  random_state; class-1 calls override the rule of the network's non-linearity.  Separate
  oracle calls (one pair per batch) supply each example's attributions per class and its
  references; the Coq model runs the loop symbolically.  References are compared exactly, attributions (floats, passed as
  exact rationals) with the tolerance stated in coq/C06/Spec.v (torch kernels may round
  differently for different batch compositions).
"""
import itertools
from fractions import Fraction

import torch

from . import common as C

torch.set_num_threads(1)    # tiny tensors: intra-op threads only add contention

PID = 'C06'
IMPORTS = ['Base.PyList', 'C06.Model', 'C06.Spec']
CASE_TYPE = 'case'
CHECK = 'check_case'
RULE = ('families of calls made in order on one model; enc: n<=5, n_shuffles<=6, EVERY batch_size in 1..n*ns+1 (+ the call '
        'repeated, + calls overriding the built-in ReLU rule via additional_nonlinear_ops interleaved, + fresh model copies), '
        'and for n<=4 every ordered selection of distinct examples (all subsets x all orders) and some with '
        'repeats, at batch sizes straddling examples; raw / processed / hypothetical, reference tensor / '
        'tagged reference function with integer seed (per-row seed offset / one seed per call; every call recorded), 0-2 extra '
        'args, return_references on/off; real: small conv/linear nets with the real dinucleotide_shuffle or ersatz.shuffle, integer seeds, overriding calls,  all batch sizes, selections, '
        'repeated calls; non-trivial = some call of the family has a batch_size that is not a multiple of '
        'n_shuffles and is smaller than n*n_shuffles (for real nets additionally: the examples\' attributions '
        'differ from each other, in some coordinate, by more than 100x the tolerance)')
EXHAUSTIVE = {'quick': False, 'thorough': True}
TRUSTED = ['the recording/encoding torch module and its rule registered through additional_nonlinear_ops; '
           'the tagged reference function; for real nets: torch forward/backward values (the oracle call)']
ASSUMPTIONS = ['the DeepLIFT pass acts row-wise on (example, reference) rows (Section hypothesis attr_rowwise; '
               'exercised by every case: the trace and every output are compared)',
               'a reference function depends only on the row it is given and the seed (dinucleotide_shuffle: '
               'exercised by the real families, references compared exactly)',
               'floating-point rounding of torch kernels across batch compositions is outside the model '
               '(tolerance 2^-16 + 2^-13 (|a|+|b|) on real-net attributions)']
SHARD = 40


# ----------------------------------------------------------------------------------------
# the encoding / recording module

TARGET_FACTOR = {0: 1, 1: 2, 2: 3, -1: 3}       # EncNet returns the columns 1*s, 2*s, 3*s


def npint(v, kind):
    import numpy
    if v is None or kind in (None, 'int'):
        return v
    return numpy.int64(v) if kind == 'np64' else numpy.int32(v)


def call_options(inp, v, kw):
    """the optional parameters of one call, in the forms the family asks for: batch_size /
    n_shuffles / random_state as Python or numpy integers or not passed at all (defaults 32 / 20),
    device as str or torch.device, verbose, print_convergence_deltas, hypothetical together with
    raw_outputs (ignored then)"""
    if v['b'] is not None:
        kw['batch_size'] = npint(v['b'], v.get('btype'))
    if not inp.get('ns_omitted'):
        kw['n_shuffles'] = npint(inp['ns'], inp.get('nstype'))
    kw['random_state'] = npint(inp['seed'], inp.get('seedtype')) if inp.get('seed') is not None else inp.get('tensor_seed')
    kw['device'] = torch.device('cpu') if v.get('device_obj') else 'cpu'
    if v.get('verbose'):
        kw['verbose'] = True
    if v.get('print_deltas'):
        kw['print_convergence_deltas'] = True
    kw['raw_outputs'] = inp['mode'] == 'raw'
    kw['hypothetical'] = inp['mode'] == 'hyp' or (inp['mode'] == 'raw' and bool(inp.get('raw_hyp')))
    kw['target'] = inp.get('target', 0)
    return kw


def quiet_call(f, *a, **kw):
    import contextlib
    import io
    with contextlib.redirect_stdout(io.StringIO()), contextlib.redirect_stderr(io.StringIO()):
        return f(*a, **kw)


class EncOp(torch.nn.Module):
    def forward(self, x):
        self.seen = x.detach().clone()     # the op keeps its own copy: no reliance on tangermeme's hook fields
        return x * 1.0


def enc_rule(module, grad_input, grad_output):
    """60 * (x + 4 ref + 32 sum(args)) per (example, reference) row, times the gradient arriving from
    the ReLU behind the op (1 under the built-in rescale rule: all inputs are >= 0 and an example entry
    never equals its reference entry; 2 when the call overrides the ReLU rule with relu_twice)"""
    inp = module.seen
    B = inp.shape[0] // 2
    x, r = inp[:B], inp[B:]
    g = 60.0 * (x + 4.0 * r + 32.0 * module.t[:B, None, None])
    return (torch.cat([g, g]) * grad_output[0],)


def relu_twice(module, grad_input, grad_output):
    """an overriding rule for the built-in torch.nn.ReLU entry (class-1 calls)"""
    return (2.0 * grad_output[0],)


class TaggedRefs:
    """deterministic tagged reference functions; every call is recorded as (rows, n, random_state).
    kind 'row': row i of the batch it is given is shuffled with seed random_state + i (as
    dinucleotide_shuffle does); kind 'flat': ONE seed for the whole call (as ersatz.shuffle does).
    ref[c, l] = (3 x[c, l] + seed + c + 2 l) mod 4 + 4.  On a single row both coincide."""
    def __init__(self, kind):
        self.kind = kind
        self.calls = []

    def __call__(self, X, n=1, random_state=None):
        self.calls.append(([tcols(x) for x in X], int(n), int(random_state)))
        B, A, L = X.shape
        c = torch.arange(A)[:, None]
        l = torch.arange(L)[None, :]
        out = torch.zeros(B, n, A, L)
        for i in range(B):
            seed = random_state + (i if self.kind == 'row' else 0)
            for k in range(n):
                out[i, k] = ((3 * X[i].long() + seed + c + 2 * l + 5 * k) % 4 + 4).float()
        return out


class EncNet(torch.nn.Module):
    def __init__(self, reffn=None):
        super().__init__()
        self.enc = EncOp()
        self.relu = torch.nn.ReLU()
        self.drop = torch.nn.Dropout(0.5)       # identity in evaluation mode
        self.reffn = reffn
        self.log = []

    def forward(self, X, *args):
        calls = []
        if self.reffn is not None:      # the reference-function calls that built this batch
            calls, self.reffn.calls = self.reffn.calls, []
        self.log.append((X.detach().clone(), [a.detach().clone() for a in args], calls))
        t = torch.zeros(X.shape[0])
        for a in args:
            t = t + a.float().reshape(a.shape[0], -1).sum(dim=1)
        self.enc.t = t
        y = self.drop(self.relu(self.enc(X)))
        s = y.reshape(y.shape[0], -1).sum(dim=1, keepdim=True)
        return torch.cat([s, 2.0 * s, 3.0 * s], dim=1)


def tcols(t):
    """(A, L) tensor -> [L][A] nested ints, or None if not integral"""
    t = t.detach().cpu().double()
    if not bool(torch.isfinite(t).all()) or not bool(torch.equal(t, t.round())):
        return None
    return t.t().to(torch.int64).tolist()


def run_enc(inp):
    from tangermeme.deep_lift_shap import deep_lift_shap
    X = torch.tensor(inp['X'], dtype=torch.float32)
    N = X.shape[0]
    args = [torch.tensor(a, dtype=torch.int64 if k % 2 == 0 else torch.float32)
            for k, a in enumerate(inp['args'])]
    refs = torch.tensor(inp['refs'], dtype=torch.float32) if inp['seed'] is None else None
    reffn = TaggedRefs(inp.get('reffn', 'row')) if refs is None else None
    runs = []
    net = EncNet(reffn)         # the calls of a family are made in order on ONE model object ...
    allsel = list(range(N))
    for v in inp['vars']:
        sel = v['sel']
        if v.get('fresh'):      # ... or on a fresh copy
            net = EncNet(reffn)
        if v.get('noise'):
            # an unrelated call in between (other examples, n_shuffles, mode, target, rule table): ignored
            try:
                quiet_call(deep_lift_shap, net, X[:1] + 1.0, batch_size=3, n_shuffles=3,
                           references=TaggedRefs('flat'), hypothetical=(inp['mode'] != 'hyp'),
                           raw_outputs=(inp['mode'] != 'raw'), target=1,
                           additional_nonlinear_ops={EncOp: enc_rule, torch.nn.ReLU: relu_twice},
                           warning_threshold=1e30, device='cpu', random_state=7)
            except Exception:
                pass
        net.log = []
        if reffn is not None:
            reffn.calls = []
        if inp.get('train_mode'):
            net.train()          # the model is handed over in training mode (e.g. between training steps)
        rec = {'ok': False, 'out': None, 'refs': None}
        try:
            same = sel == allsel     # the identity selection passes the caller's own tensor objects
            Xv = X if same else X[sel]
            ops = {EncOp: enc_rule}
            if v.get('cls', 0) == 1:
                ops[torch.nn.ReLU] = relu_twice
            kw = call_options(inp, v, dict(return_references=inp['ret'], additional_nonlinear_ops=ops,
                                           warning_threshold=1e30))
            kw['references'] = (refs if same else refs[sel]) if refs is not None else reffn
            if args:
                av = [a if same else a[sel] for a in args]
                kw['args'] = list(av) if inp.get('args_list') else tuple(av)
            res = quiet_call(deep_lift_shap, net, Xv, **kw)
            if inp['ret']:
                attr, rr = res
                rec['refs'] = [[tcols(r) for r in ex] for ex in rr]
            else:
                attr = res
            if inp['mode'] == 'raw':
                rec['out'] = [[tcols(t) for t in ex] for ex in attr]
            else:
                rec['out'] = [[tcols(ex)] for ex in attr]
            rec['ok'] = True
        except Exception as e:
            rec['error'] = '%s: %s' % (type(e).__name__, str(e)[:200])
        rec['trace'] = [{'X': [tcols(t) for t in Xb],
                         'args': [a.reshape(a.shape[0], -1).double().round().to(torch.int64).tolist() for a in Ab],
                         'calls': cl}
                        for Xb, Ab, cl in net.log]
        runs.append(rec)
    return {'runs': runs}


# ----------------------------------------------------------------------------------------
# real networks

class Scaled(torch.nn.Module):
    """forward(X, alpha) = net(X) * alpha: attributions depend on the example's own arg row"""
    def __init__(self, net):
        super().__init__()
        self.net = net

    def forward(self, X, alpha):
        return self.net(X) * alpha


ARCHS = ['conv-relu-pool-lin', 'flat-lin-tanh-lin', 'conv-elu-conv-relu-lin', 'conv-relu-lin-scaled',
         'conv-bn-relu-lin', 'flat-lin-relu-drop-lin']


KINK_X = ['AGCATGCA', 'CCGATTAT', 'GGATCCAC']
KINK_REFS = [['CTCATGCA', 'ACGATGCA'], ['CTGATCAT', 'TCGACTAT'], ['GCATGCAC', 'GACTGCAC']]


def ohe_str(seq):
    t = torch.zeros(4, len(seq))
    for l, ch in enumerate(seq):
        t['ACGT'.index(ch), l] = 1
    return t


def build_kink(wseed):
    """Flatten -> Linear(32, 3) -> ReLU -> Linear(3, 1) with exact dyadic weights.  Hidden unit 0 sits
    next to its kink for example 0: pre-activation +2^-19 for the sequence, -2^-19 for its first
    reference (|delta_in| = 2^-18 > 1e-6: the rescale rule must use the secant); hidden unit 2 is 40 for
    example 1 (T at position 7).  The rule applied to example 0's pair must not depend on example 1
    being in the same batch."""
    g = torch.Generator().manual_seed(wseed)
    nn = torch.nn
    lin1, lin2 = nn.Linear(32, 3), nn.Linear(3, 1)
    with torch.no_grad():
        W = torch.round((torch.rand(3, 4, 8, generator=g) * 2 - 1) * 4) / 8
        W[0] = 0
        W[0, 0, 0] = 1.0
        W[0, 3, 1] = 1.0 - 2.0 ** -18
        W[2, 3, 7] = 40.0
        lin1.weight.copy_(W.reshape(3, -1))
        lin1.bias.copy_(torch.tensor([-(1.0 - 2.0 ** -19), 0.125, -0.25]))
        lin2.weight.copy_(torch.tensor([[1.0, 0.75, 0.0625]]))
        lin2.bias.zero_()
    return nn.Sequential(nn.Flatten(), lin1, nn.ReLU(), lin2)


def build_net(arch, L, wseed):
    if arch == 'directed-kink':
        return build_kink(wseed)
    g = torch.Generator().manual_seed(wseed)
    nn = torch.nn
    if arch == 'conv-relu-pool-lin':
        net = nn.Sequential(nn.Conv1d(4, 5, 3), nn.ReLU(), nn.MaxPool1d(2), nn.Flatten(),
                            nn.Linear(5 * ((L - 2) // 2), 2))
    elif arch == 'flat-lin-tanh-lin':
        net = nn.Sequential(nn.Flatten(), nn.Linear(4 * L, 6), nn.Tanh(), nn.Linear(6, 2))
    elif arch == 'conv-elu-conv-relu-lin':
        net = nn.Sequential(nn.Conv1d(4, 4, 3, padding=1), nn.ELU(), nn.Conv1d(4, 3, 2), nn.ReLU(),
                            nn.Flatten(), nn.Linear(3 * (L - 1), 1))
    elif arch == 'conv-bn-relu-lin':
        net = nn.Sequential(nn.Conv1d(4, 4, 3), nn.BatchNorm1d(4), nn.ReLU(), nn.Dropout(0.3), nn.Flatten(),
                            nn.Linear(4 * (L - 2), 2))
    elif arch == 'flat-lin-relu-drop-lin':
        net = nn.Sequential(nn.Flatten(), nn.Linear(4 * L, 6), nn.ReLU(), nn.Dropout(0.5), nn.Linear(6, 2))
    else:
        net = nn.Sequential(nn.Conv1d(4, 4, 3), nn.ReLU(), nn.Flatten(), nn.Linear(4 * (L - 2), 1))
    with torch.no_grad():
        for p in net.parameters():
            p.copy_(torch.round((torch.rand(p.shape, generator=g) * 2 - 1) * 8) / 8)
        for m in net.modules():      # batch-norm with non-trivial affine parameters and running statistics
            if isinstance(m, nn.BatchNorm1d):
                m.weight.copy_(torch.round(torch.rand(m.weight.shape, generator=g) * 8 + 4) / 8)
                m.running_mean.copy_(torch.round((torch.rand(m.running_mean.shape, generator=g) * 2 - 1) * 8) / 8)
                m.running_var.copy_(torch.round(torch.rand(m.running_var.shape, generator=g) * 8 + 2) / 4)
    if arch == 'conv-relu-lin-scaled':
        net = Scaled(net)
    return net


N_OUT = {'directed-kink': 1, 'conv-relu-pool-lin': 2, 'flat-lin-tanh-lin': 2, 'conv-elu-conv-relu-lin': 1, 'conv-relu-lin-scaled': 1,
         'conv-bn-relu-lin': 2, 'flat-lin-relu-drop-lin': 2}


def real_inputs(inp):
    from tangermeme.utils import random_one_hot
    if inp['arch'] == 'directed-kink':
        return torch.stack([ohe_str(q) for q in KINK_X]), None
    dt = torch.float64 if inp.get('dtype') == 'f64' else torch.float32
    X = random_one_hot((inp['N'], 4, inp['L']), random_state=inp['xseed']).type(dt)
    # degenerate examples: a dinucleotide repeat / a homopolymer with one other character at the
    # end -- their dinucleotide shuffles are (mostly) the sequence itself
    for e, kind in enumerate(inp.get('degenerate', [])):
        if e < inp['N'] and kind:
            X[e] = 0
            for l in range(inp['L']):
                X[e, (l % 2) if kind == 'repeat' else (0 if l < inp['L'] - 1 else 3), l] = 1
    alpha = None
    if inp['arch'] == 'conv-relu-lin-scaled':
        alpha = (torch.arange(inp['N']).type(dt)[:, None] * 0.5 + 1.0)
    return X, alpha


def real_reference_tensor(inp, X):
    """an explicit reference tensor: shuffles, except that every reference of example 0 and the
    first reference of example 1 are the sequences themselves"""
    from tangermeme.ersatz import shuffle
    if inp['arch'] == 'directed-kink':
        return torch.stack([torch.stack([ohe_str(q) for q in ex]) for ex in KINK_REFS])
    refs = shuffle(X, n=inp['ns'], random_state=inp['seed']).type(X.dtype)
    refs[0, :] = X[0]
    if inp['N'] > 1:
        refs[1, 0] = X[1]
    return refs


def qlist(t):
    return [Fraction(float(v)) for v in t.detach().cpu().double().reshape(-1).tolist()]


def ilist(t):
    return t.detach().cpu().round().to(torch.int64).reshape(-1).tolist()


def plain_gradient(module, grad_input, grad_output):
    """an overriding rule: leave the gradient alone (class-1 calls on real networks)"""
    return grad_input


OVERRIDE = {'directed-kink': torch.nn.ReLU, 'conv-bn-relu-lin': torch.nn.ReLU, 'flat-lin-relu-drop-lin': torch.nn.ReLU,
            'conv-relu-pool-lin': torch.nn.ReLU, 'flat-lin-tanh-lin': torch.nn.Tanh,
            'conv-elu-conv-relu-lin': torch.nn.ELU, 'conv-relu-lin-scaled': torch.nn.ReLU}


def run_real(inp):
    from tangermeme.deep_lift_shap import deep_lift_shap
    from tangermeme.ersatz import shuffle, dinucleotide_shuffle
    X, alpha = real_inputs(inp)
    sizes = []

    def make():
        net = build_net(inp['arch'], inp['L'], inp['wseed'])
        if inp.get('dtype') == 'f64':
            net = net.double()
        net.register_forward_pre_hook(lambda m, a: sizes.append(int(a[0].shape[0])))
        return net

    net = [make()]
    rtensor = real_reference_tensor(inp, X) if inp.get('reffn') == 'tensor' else None
    reffn = shuffle if inp.get('reffn') == 'shuffle' else dinucleotide_shuffle
    allx = list(range(inp['N']))

    def call(sel, b, ret, cls=0, fresh=False, v=None):
        if fresh:
            net[0] = make()
        if inp.get('train_mode'):
            net[0].train()       # handed over in training mode: deep_lift_shap must put it in eval mode
        same = sel == allx
        v = dict(v or {}, b=b)
        kw = call_options(inp, v, dict(return_references=ret, warning_threshold=1e30))
        kw['references'] = (rtensor if same else rtensor[sel]) if rtensor is not None else reffn
        if cls == 1:
            kw['additional_nonlinear_ops'] = {OVERRIDE[inp['arch']]: plain_gradient}
        if alpha is not None:
            kw['args'] = (alpha if same else alpha[sel],)
        return quiet_call(deep_lift_shap, net[0], X if same else X[sel], **kw)

    out = {'runs': [], 'oracle': None}
    try:    # oracle for the plain class, before anything else: one pair per batch, by definition
            # shuffle j of example e is references(X[e:e+1], n=1, random_state + j)
        attr, rr = call(allx, 1, True)
        out['oracle'] = {'val': [[[str(q) for q in qlist(ex)] for ex in attr]],
                         'refs': [[ilist(r) for r in ex] for ex in rr]}
    except Exception as e:
        out['oracle_error'] = '%s: %s' % (type(e).__name__, str(e)[:200])
    for v in inp['vars']:
        del sizes[:]
        rec = {'ok': False, 'out': None, 'refs': None}
        try:
            if v.get('noise'):     # an unrelated call in between, ignored
                try:
                    quiet_call(deep_lift_shap, net[0], X[:1], batch_size=2, n_shuffles=inp['ns'] + 1, target=-1,
                               hypothetical=(inp['mode'] != 'hyp'), device='cpu', random_state=1,
                               warning_threshold=1e30,
                               additional_nonlinear_ops={OVERRIDE[inp['arch']]: plain_gradient},
                               **({'args': (alpha[:1],)} if alpha is not None else {}))
                except Exception:
                    pass
                del sizes[:]
            res = call(v['sel'], v['b'], inp['ret'], v.get('cls', 0), v.get('fresh', False), v)
            if inp['ret']:
                attr, rr = res
                rec['refs'] = [[ilist(r) for r in ex] for ex in rr]
            else:
                attr = res
            rec['out'] = [[str(q) for q in qlist(ex)] for ex in attr]
            rec['ok'] = True
        except Exception as e:
            rec['error'] = '%s: %s' % (type(e).__name__, str(e)[:200])
        rec['trace'] = list(sizes)
        out['runs'].append(rec)
    if out['oracle'] is not None and any(v.get('cls', 0) == 1 for v in inp['vars']):
        try:    # oracle for the overriding class, after everything else, on a fresh copy
            attr = call(allx, 1, False, 1, True)
            out['oracle']['val'].append([[str(q) for q in qlist(ex)] for ex in attr])
        except Exception as e:
            out['oracle_error'] = '%s: %s' % (type(e).__name__, str(e)[:200])
    return out


def run_impl(inp):
    try:
        return run_enc(inp) if inp['kind'] == 'enc' else run_real(inp)
    except Exception as e:   # a failure outside the calls themselves (building inputs)
        return {'runs': [], 'harness_error': '%s: %s' % (type(e).__name__, str(e)[:300])}


# ----------------------------------------------------------------------------------------
# Coq literals

POISON_T = '[[(-777)]]'


def tlit(t):
    return POISON_T if t is None else C.zmat(t)


def tlit_AL(t):
    """input tensor given as [A][L] -> literal in [L][A] layout"""
    return C.zmat([list(col) for col in zip(*t)]) if t and t[0] else '[]'


def eff_b(v):
    return 32 if v['b'] is None else v['b']        # batch_size not passed: the default


def var_lit(v):
    return '(Var %s %s %s)' % (C.natlist(v['sel']), C.z(eff_b(v)), C.nat(v.get('cls', 0)))


def call_lit(cl):
    rows, n, seed = cl
    return '(%s, %s, %s)' % (C.lst([tlit(t) for t in rows]), C.z(n), C.z(seed))


def qlit(s):
    fr = Fraction(s)
    return '(mkq %s %d)' % (C.z(fr.numerator), fr.denominator)


def coq_case(inp, out):
    vars_ = C.lst([var_lit(v) for v in inp['vars']])
    runs = out.get('runs') or []
    if inp['kind'] == 'enc':
        N = len(inp['X'])
        exs = []
        for e in range(N):
            ar = C.lst([C.zlist(a[e]) for a in inp['args']])
            rf = C.lst([tlit_AL(r) for r in inp['refs'][e]]) if inp['seed'] is None else '[]'
            exs.append('(ExE %s %s %s)' % (tlit_AL(inp['X'][e]), ar, rf))
        mode = {'raw': 'Raw', 'proc': 'Proc', 'hyp': 'Hyp'}[inp['mode']]
        cfg = '(CfgE %s %s %s %s %s %s %s)' % (mode, C.opt(inp['seed']), C.nat(inp['ns']),
                                               C.boolean(inp['ret']), C.nat(len(inp['args'])),
                                               C.z(TARGET_FACTOR[inp.get('target', 0)]), C.lst(exs))
        rl = []
        for r in runs:
            if r['ok']:
                o = C.lst([C.lst([tlit(t) for t in ex]) for ex in r['out']])
                f = 'None' if r['refs'] is None else '(Some %s)' % C.lst(
                    [C.lst([tlit(t) for t in ex]) for ex in r['refs']])
                val = '(Ok (%s, %s))' % (o, f)
            else:
                val = 'Err'
            tr = C.lst(['(%s, %s, %s)' % (C.lst([tlit(t) for t in fl['X']]),
                                          C.lst([C.zmat(a) for a in fl['args']]),
                                          C.lst([call_lit(cl) for cl in fl['calls']])) for fl in r['trace']])
            rl.append('(%s, %s)' % (val, tr))
        return '(CEnc %s %s, OEnc %s)' % (cfg, vars_, C.lst(rl))
    # real
    orc = out.get('oracle')
    exs = []
    for e in range(inp['N']):
        if orc is not None:
            val = C.lst([C.lst([qlit(s) for s in cls_val[e]]) for cls_val in orc['val']])
            rf = C.lst([C.zlist(r) for r in orc['refs'][e]])
        else:
            val, rf = '[]', '[]'
        exs.append('(ExR %s %s %s)' % (C.nat(e), val, rf))
    cfg = '(CfgR %s %s %s)' % (C.nat(inp['ns']), C.boolean(inp['ret']), C.lst(exs))
    rl = []
    for r in runs:
        if r['ok']:
            o = C.lst([C.lst([qlit(s) for s in ex]) for ex in r['out']])
            f = 'None' if r['refs'] is None else '(Some %s)' % C.lst(
                [C.lst([C.zlist(t) for t in ex]) for ex in r['refs']])
            val = '(Ok (%s, %s))' % (o, f)
        else:
            val = 'Err'
        rl.append('(%s, %s)' % (val, C.zlist(r['trace'])))
    return '(CReal %s %s, OReal %s)' % (cfg, vars_, C.lst(rl))


# ----------------------------------------------------------------------------------------
# evidence helpers

def nontrivial(inp, out):
    ns = inp.get('ens', inp['ns'])
    strad = any(eff_b(v) >= 1 and eff_b(v) % ns != 0 and eff_b(v) < len(v['sel']) * ns for v in inp['vars'])
    if not strad or not all(r['ok'] for r in out.get('runs', [])):
        return False
    if inp['kind'] == 'real':
        orc = out.get('oracle')
        if orc is None or inp['N'] < 2:
            return False
        vals = [[float(Fraction(s)) for s in ex] for ex in orc['val'][0]]
        for a, b in itertools.combinations(vals, 2):
            if not any(abs(x - y) > 100 * (2 ** -16 + 2 ** -13 * (abs(x) + abs(y))) for x, y in zip(a, b)):
                return False
    return True


def hist_key(inp, out):
    ok = all(r['ok'] for r in out.get('runs', [])) and bool(out.get('runs'))
    if inp['kind'] == 'enc':
        return 'enc/%s/%s/%s/%s/args%d/%s/%s' % ('train' if inp.get('train_mode') else 'eval', inp['mode'], 'tensor' if inp['seed'] is None else 'function-' + inp.get('reffn', 'row'),
                                              'refs' if inp['ret'] else 'norefs', len(inp['args']),
                                              inp.get('family', '?'), 'ok' if ok else 'raise')
    return 'real/%s/%s/%s/%s/%s/%s/%s' % (inp['arch'], inp.get('dtype', 'f32'), inp.get('reffn', 'dinuc'), inp['mode'],
                                          'train' if inp.get('train_mode') else 'eval', inp.get('family', '?'),
                                          'ok' if ok else 'raise')


# ----------------------------------------------------------------------------------------
# generators

def distinct_tensors(rng, count, A, L, hi, lo=0):
    seen, out = set(), []
    while len(out) < count:
        t = tuple(tuple(rng.randint(lo, hi) for _ in range(L)) for _ in range(A))
        if t in seen or not any(any(r) for r in t):
            continue
        seen.add(t)
        out.append([list(r) for r in t])
    return out


def enc_base(rng, N, ns, mode, source, ret, nargs):
    A, L = rng.choice([(2, 2), (2, 2), (3, 2), (2, 3), (4, 2)])
    X = distinct_tensors(rng, N, A, L, 3)
    args = []
    for k in range(nargs):
        w = rng.choice([1, 2])
        tags = list(range(N))
        rng.shuffle(tags)
        # small entries (exactness in float32) but different for every example
        args.append([[tags[e] % 3] + ([(tags[e] // 3) % 2] if w == 2 else []) for e in range(N)])
    inp = {'kind': 'enc', 'mode': mode, 'ret': ret, 'A': A, 'L': L, 'X': X, 'args': args}
    if source == 'tensor':
        flat = distinct_tensors(rng, N * ns, A, L, 7, 4)     # 4..7: never equal to an example entry (0..3)
        inp.update(seed=None, refs=[flat[e * ns:(e + 1) * ns] for e in range(N)],
                   ns=rng.choice([ns, ns + 1, 20, 1]))      # the parameter is ignored for a tensor
    else:
        inp.update(seed=rng.randint(0, 50), refs=None, ns=ns, reffn='flat' if source == 'function-flat' else 'row')
    inp['ens'] = ns          # the effective number of shuffles
    # parameter forms: target column, args as list, hypothetical=True together with raw_outputs,
    # numpy integers for random_state / n_shuffles, an (ignored) integer random_state with a tensor
    inp.update(target=rng.choice([0, 0, 1, 2, -1]), args_list=rng.random() < 0.3, raw_hyp=rng.random() < 0.3,
               train_mode=rng.random() < 0.4,
               seedtype=rng.choice(['int', 'int', 'np64']), nstype=rng.choice(['int', 'int', 'np64', 'np32']),
               tensor_seed=rng.choice([None, None, 3]))
    return inp


def sprinkle(rng, vs):
    """parameter forms of single calls: numpy batch sizes, torch.device, verbose, printed deltas, and
    an unrelated call made just before ("noise")"""
    for v in vs[2:]:
        r = rng.random()
        if r < 0.06:
            v['btype'] = rng.choice(['np64', 'np32'])
        elif r < 0.10:
            v['device_obj'] = True
        elif r < 0.13:
            v['verbose'] = True
        elif r < 0.16:
            v['print_deltas'] = True
        elif r < 0.24:
            v['noise'] = True
    return vs


def ident(N):
    return list(range(N))


def full(N, b, **kw):
    return dict({'sel': ident(N), 'b': b}, **kw)


def batch_family(rng, N, ns):
    """the reference call (all examples, one batch), the same call again, a call that overrides the
    built-in ReLU rule, every batch size (with one more overriding call somewhere in the sweep), then
    the reference call again on the same model object and on a fresh copy, and an overriding call on
    a fresh copy: plain calls must not see the overrides of the calls before them"""
    big = N * ns + 1
    vs = [full(N, big), full(N, big), full(N, big, cls=1)]
    sweep = [full(N, b) for b in range(1, N * ns + 1)]
    sweep.insert(rng.randint(0, len(sweep)), full(N, rng.randint(1, big), cls=1))
    sweep.insert(rng.randint(0, len(sweep)), full(N, None))      # batch_size not passed: 32
    vs += sweep
    vs += [full(N, big), full(N, rng.randint(1, big), cls=1, fresh=True), full(N, big, fresh=True)]
    return sprinkle(rng, vs)


def selections(N):
    out = []
    for k in range(1, N + 1):
        out += [list(p) for p in itertools.permutations(range(N), k)]
    return out


def straddling_b(rng, n, ns):
    cands = [b for b in range(1, n * ns) if b % ns != 0]
    return rng.choice(cands) if cands else rng.randint(1, n * ns + 1)


def selection_family(rng, N, ns, sels):
    vs = [full(N, N * ns + 1)]
    for s in sels:
        vs.append({'sel': s, 'b': straddling_b(rng, len(s), ns)})
    return sprinkle(rng, vs)


def fix_ns(inp):
    """inp['ns'] is what is passed as n_shuffles; the family generators need the effective one"""
    return inp['ens']


MODES = ['raw', 'proc', 'hyp']
SOURCES = ['tensor', 'function-row', 'function-flat']


def gen_enc(tier, rng):
    quick = tier != 'thorough'
    for N in range(1, 6):
        for ns in range(1, 7):
            combos = [(m, s) for m in MODES for s in SOURCES]
            if quick:
                combos = rng.sample(combos, 3)
            for mode, source in combos:
                inp = enc_base(rng, N, ns, mode, source, rng.random() < 0.6, rng.choice([0, 0, 1, 2]))
                ens = fix_ns(inp)
                inp['vars'] = batch_family(rng, N, ens)
                inp['family'] = 'batch'
                yield inp
    for N in range(2, 5):
        for ns in range(1, 7):
            if quick and ns not in (2, 3, 5):
                continue
            sels = selections(N)
            # a few selections with a repeated example
            sels += [[rng.randrange(N) for _ in range(rng.randint(2, N + 1))] for _ in range(3)]
            reps = 1 if quick else 3
            for _ in range(reps):
                mode, source = rng.choice(MODES), rng.choice(SOURCES)
                inp = enc_base(rng, N, ns, mode, source, rng.random() < 0.6, rng.choice([0, 1, 1, 2]))
                ens = fix_ns(inp)
                chunk = 24
                for k in range(0, len(sels), chunk):
                    c = dict(inp)
                    c['vars'] = selection_family(rng, N, ens, sels[k:k + chunk])
                    c['family'] = 'selection'
                    yield c
    # many examples: batches of 2-4 distinct examples straddling 7|8 and 31|32 (and every other boundary)
    for N, ns in ([(9, 3), (12, 2), (33, 3)] if quick else [(9, 3), (10, 3), (11, 2), (12, 2), (12, 3), (33, 3), (34, 2), (35, 3)]):
        inp = enc_base(rng, N, ns, rng.choice(MODES), rng.choice(SOURCES), rng.random() < 0.6, rng.choice([0, 1]))
        bs = [b for b in (2, 3, 4, 5, 7, 9, 10, 11) if b % ns != 0]
        vs = [full(N, N * ns + 1)] + [full(N, b) for b in (bs if N < 20 else rng.sample(bs, 3))]
        vs += [{'sel': list(range(N - 1, -1, -1)), 'b': rng.choice(bs)}, {'sel': [7, 8], 'b': ns + 1},
               {'sel': [8, 7, 6], 'b': ns + 2}]
        inp['vars'] = vs
        inp['family'] = 'many-examples'
        yield inp
    # n_shuffles not passed (default 20) with a reference function: every batch size 1..20n+1
    for t in range(2 if quick else 8):
        N = 1 + t % 2
        inp = enc_base(rng, N, 20, MODES[t % 3], rng.choice(SOURCES[1:]), t % 2 == 0, t % 3)
        inp['ns_omitted'] = True
        vs = [full(N, 20 * N + 1), full(N, None)] + [full(N, b) for b in range(1, 20 * N + 1)]
        if quick:
            vs = vs[:2] + rng.sample(vs[2:], 12)
        inp['vars'] = vs + [{'sel': [N - 1], 'b': 7}, full(N, 20 * N + 1)]
        inp['family'] = 'ns-default'
        yield inp
    # outside the quantifier: batch_size <= 0 (the code then runs everything in one batch)
    for _ in range(4 if quick else 20):
        N, ns = rng.randint(1, 3), rng.randint(1, 3)
        inp = enc_base(rng, N, ns, rng.choice(MODES), rng.choice(SOURCES), True, rng.choice([0, 1]))
        ens = fix_ns(inp)
        inp['vars'] = [full(N, N * ens), full(N, rng.choice([0, -1, -3]))]
        inp['family'] = 'b<1'
        yield inp


def gen_real(tier, rng):
    quick = tier != 'thorough'
    count = 18 if quick else 120
    for t in range(count):
        arch = ARCHS[t % len(ARCHS)]
        N = rng.randint(2, 4)
        ns = rng.randint(2, 5)
        inp = {'kind': 'real', 'arch': arch, 'N': N, 'L': rng.choice([8, 10, 12]), 'ns': ns,
               'xseed': rng.randint(0, 10 ** 6), 'wseed': rng.randint(0, 10 ** 6),
               'seed': rng.randint(0, 10 ** 6), 'mode': MODES[(t // len(ARCHS)) % 3],
               'ret': rng.random() < 0.7, 'reffn': ['dinuc', 'shuffle', 'tensor'][(t // 2) % 3],
               'dtype': 'f64' if t % 5 == 4 else 'f32',
               'degenerate': rng.choice([[], ['repeat'], ['homo', 'repeat'], [None, 'homo']]),
               'seedtype': rng.choice(['int', 'np64']), 'raw_hyp': rng.random() < 0.3,
               'train_mode': arch in ('conv-bn-relu-lin', 'flat-lin-relu-drop-lin') or rng.random() < 0.3}
        inp['target'] = rng.choice([0, -1] + list(range(N_OUT[arch])))
        vs = batch_family(rng, N, ns)
        if quick and len(vs) > 14:
            mid = vs[3:-3]
            vs = vs[:3] + [v for v in mid if v.get('cls') == 1 or rng.random() < 8.0 / len(mid)] + vs[-3:]
        sels = selections(N)
        extra = [{'sel': s, 'b': straddling_b(rng, len(s), ns)}
                 for s in (rng.sample(sels, min(len(sels), 6 if quick else 16)))]
        extra.append({'sel': [rng.randrange(N) for _ in range(N + 1)], 'b': rng.randint(1, N * ns)})
        inp['vars'] = vs[:-3] + sprinkle(rng, [{}, {}] + extra)[2:] + vs[-3:]
        inp['family'] = 'batch+selection'
        yield inp


def gen_directed(tier, rng):
    """directed real-net families: (a) a hidden unit next to its kink whose pair is evaluated alone,
    co-batched with a strongly activating example, in every subset / order / batch size and output
    mode; (b) a real net on 9-10 examples with batches straddling examples 7|8"""
    for mode in MODES:
        sels = [[0], [0, 2], [2, 0], [0, 1], [1, 0], [0, 1, 2], [2, 1, 0]]
        vs = [full(3, 7), full(3, 7)]
        for sel in sels:
            for b in range(1, len(sel) * 2 + 2):
                vs.append({'sel': sel, 'b': b})
        yield {'kind': 'real', 'arch': 'directed-kink', 'N': 3, 'L': 8, 'ns': 2, 'xseed': 0, 'wseed': rng.randint(0, 10 ** 6),
               'seed': 0, 'mode': mode, 'ret': mode != 'raw', 'reffn': 'tensor', 'dtype': 'f32', 'degenerate': [],
               'target': 0, 'vars': vs, 'family': 'directed-kink'}
    for t in range(1 if tier != 'thorough' else 3):
        N, ns = 9 + t, 3
        vs = [full(N, N * ns + 1)] + [full(N, b) for b in (5, 7, 10, 11)] + [{'sel': [7, 8], 'b': 4}]
        yield {'kind': 'real', 'arch': ARCHS[t], 'N': N, 'L': 10, 'ns': ns, 'xseed': rng.randint(0, 10 ** 6),
               'wseed': rng.randint(0, 10 ** 6), 'seed': rng.randint(0, 10 ** 6), 'mode': MODES[t % 3], 'ret': True,
               'reffn': 'dinuc', 'dtype': 'f32', 'degenerate': [], 'target': 0, 'vars': vs, 'family': 'many-examples'}


def generate(tier, rng):
    for inp in gen_enc(tier, rng):
        yield inp
    for inp in gen_real(tier, rng):
        yield inp
    for inp in gen_directed(tier, rng):
        yield inp


def shrink(inp):
    """drop calls from the family (a leak between calls needs three of them: keep dropping one at a
    time while the verdict persists), then examples from a selection, then lower the batch size"""
    vs = inp['vars']
    if len(vs) > 8:
        for k in range(0, len(vs), max(1, len(vs) // 6)):
            yield dict(inp, vars=vs[:k] + vs[k + max(1, len(vs) // 6):])
    if len(vs) > 2:
        for k in range(len(vs) - 1, -1, -1):
            yield dict(inp, vars=vs[:k] + vs[k + 1:])
    if 2 <= len(vs) <= 3:
        v = vs[-1]
        if len(v['sel']) > 1 and v['sel'] != vs[0]['sel']:
            for k in range(len(v['sel'])):
                yield dict(inp, vars=vs[:-1] + [dict(v, sel=v['sel'][:k] + v['sel'][k + 1:])])
        if v['b'] is not None and v['b'] > 1:
            yield dict(inp, vars=vs[:-1] + [dict(v, b=v['b'] - 1)])


def search(rng, disagreeing):
    for inp in gen_enc('quick', rng):
        yield inp
